(* Model of rten-serialize/src/npy.rs (+ npy/dtype.rs, the naming rule of npz.rs and the
   dtype map of safetensors.rs) for property C34.

   Files and strings are byte lists ([list N], every element < 256).  Elements of a tensor
   are represented by their bit patterns as unsigned integers (bool: 0/1), in logical
   (row-major) order -- the order in which `TensorView::iter` yields them (C07's obligation).
   [dbg = true] models a build with overflow checks (usize `*`/`+` panic on overflow),
   [dbg = false] a release build (wrapping).  Outcomes distinguish Ok / Err kind / Panic /
   Fuel (fuel exhaustion stands for non-termination). *)
From RV Require Import Prelude.
From Coq Require Import String Ascii.
Open Scope N_scope.

(* ------------------------------------------------------------ bytes and strings *)
Fixpoint bytes_of_string (s : string) : list N :=
  match s with
  | EmptyString => []
  | String c r => N_of_ascii c :: bytes_of_string r
  end.
Notation B s := (bytes_of_string s).

Fixpoint list_eqb (a c : list N) : bool :=
  match a, c with
  | [], [] => true
  | x :: a', y :: c' => (x =? y) && list_eqb a' c'
  | _, _ => false
  end.

Fixpoint prefixb (p s : list N) : bool :=
  match p, s with
  | [], _ => true
  | x :: p', y :: s' => (x =? y) && prefixb p' s'
  | _ :: _, [] => false
  end.

Definition lenN (l : list N) : N := N.of_nat (List.length l).

(* ------------------------------------------------------------ outcomes *)
Inductive err :=
| EEof            (* UnexpectedEof from read_exact *)
| ENotNpy         (* "not an npy file" *)
| EVersion        (* "unsupported npy version" *)
| EUtf8           (* "npy header is not valid UTF-8" *)
| EExpect (c : N) (* "expected `c` in npy header" *)
| EUnterminated   (* "unterminated string in npy header" *)
| EStrUtf8        (* "npy header string is not valid UTF-8" (unreachable) *)
| EBool           (* "expected `True` or `False`" *)
| EInt            (* "expected integer in npy header" *)
| EIntRange       (* "integer in npy header is out of range" *)
| EKey            (* "unexpected npy header key" *)
| EMissing (k : N)(* "npy header is missing `descr`(0) / `fortran_order`(1) / `shape`(2)" *)
| EDescr          (* "invalid npy dtype" *)
| EDtype          (* "unsupported npy dtype" *)
| ECount          (* "array element count overflows" *)
| EBytes          (* "array size in bytes overflows" *)
| ETooLarge       (* "array is too large" *)
| ETruncated      (* "array data is truncated" *)
| EHeaderTooLarge (* write: "npy header is too large to encode" *)
| EOther.

Inductive res (A : Type) :=
| Ok (a : A) | Err (e : err) | Panic | Fuel.
Arguments Ok {A} a.
Arguments Err {A} e.
Arguments Panic {A}.
Arguments Fuel {A}.

Definition bind {A B} (r : res A) (f : A -> res B) : res B :=
  match r with Ok a => f a | Err e => Err e | Panic => Panic | Fuel => Fuel end.
Notation "x <- r ;; k" := (bind r (fun x => k)) (at level 61, r at next level, right associativity).

(* ------------------------------------------------------------ dtypes *)
Inductive dtype := DBool | DI8 | DI16 | DI32 | DI64 | DU8 | DU16 | DU32 | DU64 | DF32 | DF64.
Inductive kind := KBool | KInt | KUint | KFloat.

Definition item_size (d : dtype) : N :=
  match d with
  | DBool | DI8 | DU8 => 1
  | DI16 | DU16 => 2
  | DI32 | DU32 | DF32 => 4
  | DI64 | DU64 | DF64 => 8
  end.

(* Element::DESCR *)
Definition descr (d : dtype) : list N :=
  match d with
  | DBool => B "|b1" | DI8 => B "|i1" | DI16 => B "<i2" | DI32 => B "<i4" | DI64 => B "<i8"
  | DU8 => B "|u1" | DU16 => B "<u2" | DU32 => B "<u4" | DU64 => B "<u8"
  | DF32 => B "<f4" | DF64 => B "<f8"
  end.

Definition dtype_eqb (x y : dtype) : bool :=
  match x, y with
  | DBool, DBool | DI8, DI8 | DI16, DI16 | DI32, DI32 | DI64, DI64
  | DU8, DU8 | DU16, DU16 | DU32, DU32 | DU64, DU64 | DF32, DF32 | DF64, DF64 => true
  | _, _ => false
  end.

(* parsed `descr` *)
Record ddesc := { dd_be : bool; dd_kind : kind; dd_size : N }.

(* data_type_from_dtype *)
Definition data_type_of (d : ddesc) : option dtype :=
  match dd_kind d, dd_size d with
  | KBool, 1 => Some DBool
  | KInt, 1 => Some DI8 | KInt, 2 => Some DI16 | KInt, 4 => Some DI32 | KInt, 8 => Some DI64
  | KUint, 1 => Some DU8 | KUint, 2 => Some DU16 | KUint, 4 => Some DU32 | KUint, 8 => Some DU64
  | KFloat, 4 => Some DF32 | KFloat, 8 => Some DF64
  | _, _ => None
  end.

(* ------------------------------------------------------------ decimal numbers *)
Definition is_digit (c : N) : bool := (48 <=? c) && (c <=? 57).

(* usize::to_string *)
Fixpoint to_digits (fuel : nat) (n : N) (acc : list N) : list N :=
  match fuel with
  | O => acc
  | S f =>
      let acc' := (48 + n mod 10) :: acc in
      if n / 10 =? 0 then acc' else to_digits f (n / 10) acc'
  end.
Definition to_string (n : N) : list N := to_digits (S (N.to_nat (N.size n))) n [].

(* value of a digit string *)
Definition dval (ds : list N) : N := fold_left (fun a d => a * 10 + (d - 48)) ds 0.

Fixpoint take_digits (s : list N) : list N * list N :=
  match s with
  | c :: r => if is_digit c then let (ds, r') := take_digits r in (c :: ds, r') else ([], s)
  | [] => ([], [])
  end.

(* <usize as FromStr>::from_str : optional '+', at least one digit, only digits, no overflow *)
Definition usize_from_str (s : list N) : option N :=
  let ds := match s with 43 :: r => r | _ => s end in
  match ds with
  | [] => None
  | _ => if forallb is_digit ds then (if dval ds <? two64 then Some (dval ds) else None) else None
  end.

(* ------------------------------------------------------------ UTF-8 (core::str::from_utf8) *)
Definition cont (c : N) : bool := (128 <=? c) && (c <=? 191).
Definition in_range (lo hi c : N) : bool := (lo <=? c) && (c <=? hi).

Fixpoint utf8_valid (s : list N) : bool :=
  match s with
  | [] => true
  | c0 :: r0 =>
      if c0 <? 128 then utf8_valid r0
      else if in_range 194 223 c0 then
        match r0 with c1 :: r1 => cont c1 && utf8_valid r1 | _ => false end
      else if in_range 224 239 c0 then
        match r0 with
        | c1 :: c2 :: r2 =>
            (if c0 =? 224 then in_range 160 191 c1
             else if c0 =? 237 then in_range 128 159 c1
             else cont c1) && cont c2 && utf8_valid r2
        | _ => false
        end
      else if in_range 240 244 c0 then
        match r0 with
        | c1 :: c2 :: c3 :: r3 =>
            (if c0 =? 240 then in_range 144 191 c1
             else if c0 =? 244 then in_range 128 143 c1
             else cont c1) && cont c2 && cont c3 && utf8_valid r3
        | _ => false
        end
      else false
  end.

(* ------------------------------------------------------------ HeaderParser *)
Definition is_ws (c : N) : bool := (c =? 32) || (c =? 9) || (c =? 10) || (c =? 12) || (c =? 13).

Fixpoint skip_ws (s : list N) : list N :=
  match s with
  | c :: r => if is_ws c then skip_ws r else s
  | [] => []
  end.

Definition consume (c : N) (s : list N) : option (list N) :=
  match s with
  | x :: r => if x =? c then Some r else None
  | [] => None
  end.

Definition consume_opt (c : N) (s : list N) : list N :=
  match consume c s with Some r => r | None => s end.

Definition expect (c : N) (s : list N) : res (list N) :=
  match consume c s with Some r => Ok r | None => Err (EExpect c) end.

Definition QUOTE : N := 39.

Fixpoint take_until_quote (s : list N) : option (list N * list N) :=
  match s with
  | [] => None
  | c :: r =>
      if c =? QUOTE then Some ([], r)
      else match take_until_quote r with
           | Some (v, r') => Some (c :: v, r')
           | None => None
           end
  end.

Definition parse_string (s : list N) : res (list N * list N) :=
  r <- expect QUOTE s ;;
  match take_until_quote r with
  | Some (v, r') => if utf8_valid v then Ok (v, r') else Err EStrUtf8
  | None => Err EUnterminated
  end.

Definition parse_bool (s : list N) : res (bool * list N) :=
  if prefixb (B "True") s then Ok (true, skipn 4 s)
  else if prefixb (B "False") s then Ok (false, skipn 5 s)
  else Err EBool.

Definition parse_usize (s : list N) : res (N * list N) :=
  let (ds, r) := take_digits s in
  match ds with
  | [] => Err EInt
  | _ => if dval ds <? two64 then Ok (dval ds, r) else Err EIntRange
  end.

Fixpoint shape_loop (fuel : nat) (s : list N) (acc : list N) : res (list N * list N) :=
  match fuel with
  | O => Fuel
  | S f =>
      let s1 := skip_ws s in
      match consume 41 s1 with
      | Some r => Ok (rev acc, r)
      | None =>
          vr <- parse_usize s1 ;;
          let (v, r) := vr : N * list N in
          shape_loop f (consume_opt 44 (skip_ws r)) (v :: acc)
      end
  end.

Definition parse_shape (s : list N) : res (list N * list N) :=
  r <- expect 40 s ;;
  shape_loop (S (List.length r)) r [].

(* `descr[2..]` : panics unless 2 is a char boundary within the string *)
Definition str_from2 (s : list N) : res (list N) :=
  match s with
  | _ :: _ :: r => match r with
                   | c :: _ => if cont c then Panic else Ok r
                   | [] => Ok r
                   end
  | _ => Panic
  end.

(* parse_descr; `=` is native order = little endian on the targets the checks run on *)
Definition parse_descr (s : list N) : res ddesc :=
  match s with
  | c0 :: r0 =>
      be <- (if c0 =? 62 then Ok true
             else if (c0 =? 61) || (c0 =? 60) || (c0 =? 124) then Ok false
             else Err EDescr) ;;
      match r0 with
      | c1 :: _ =>
          k <- (if c1 =? 98 then Ok KBool else if c1 =? 105 then Ok KInt
                else if c1 =? 117 then Ok KUint else if c1 =? 102 then Ok KFloat else Err EDescr) ;;
          rest <- str_from2 s ;;
          match usize_from_str rest with
          | Some n => Ok {| dd_be := be; dd_kind := k; dd_size := n |}
          | None => Err EDescr
          end
      | [] => Err EDescr
      end
  | [] => Err EDescr
  end.

Record hacc := { a_descr : option ddesc; a_fortran : option bool; a_shape : option (list N) }.
Definition hacc0 := {| a_descr := None; a_fortran := None; a_shape := None |}.

Definition K_DESCR := B "descr".
Definition K_FORTRAN := B "fortran_order".
Definition K_SHAPE := B "shape".

(* one `key: value` entry; returns the remaining input and the updated accumulator *)
Definition parse_entry (s1 : list N) (acc : hacc) : res (list N * hacc) :=
  kr <- parse_string s1 ;;
  let (key, r) := kr : list N * list N in
  r2 <- expect 58 (skip_ws r) ;;
  let r3 := skip_ws r2 in
  if list_eqb key K_DESCR then
    vr <- parse_string r3 ;;
    let (v, r4) := vr : list N * list N in
    d <- parse_descr v ;;
    Ok (r4, {| a_descr := Some d; a_fortran := a_fortran acc; a_shape := a_shape acc |})
  else if list_eqb key K_FORTRAN then
    vr <- parse_bool r3 ;;
    let (v, r4) := vr : bool * list N in
    Ok (r4, {| a_descr := a_descr acc; a_fortran := Some v; a_shape := a_shape acc |})
  else if list_eqb key K_SHAPE then
    vr <- parse_shape r3 ;;
    let (v, r4) := vr : list N * list N in
    Ok (r4, {| a_descr := a_descr acc; a_fortran := a_fortran acc; a_shape := Some v |})
  else Err EKey.

Fixpoint dict_loop (fuel : nat) (s : list N) (acc : hacc) : res hacc :=
  match fuel with
  | O => Fuel
  | S f =>
      let s1 := skip_ws s in
      match consume 125 s1 with
      | Some _ => Ok acc
      | None =>
          ra <- parse_entry s1 acc ;;
          let (r4, acc') := ra : list N * hacc in
          dict_loop f (consume_opt 44 (skip_ws r4)) acc'
      end
  end.

Record header := { h_dtype : ddesc; h_fortran : bool; h_shape : list N }.

Definition parse_header (s : list N) : res header :=
  r <- expect 123 (skip_ws s) ;;
  acc <- dict_loop (S (List.length r)) r hacc0 ;;
  match a_descr acc with
  | None => Err (EMissing 0)
  | Some d =>
      match a_fortran acc with
      | None => Err (EMissing 1)
      | Some f =>
          match a_shape acc with
          | None => Err (EMissing 2)
          | Some sh => Ok {| h_dtype := d; h_fortran := f; h_shape := sh |}
          end
      end
  end.

(* ------------------------------------------------------------ read_header *)
Definition MAGIC : list N := [147; 78; 85; 77; 80; 89].   (* \x93NUMPY *)

(* read_exact on a slice reader *)
Definition read_exact (n : N) (s : list N) : res (list N * list N) :=
  if n <=? lenN s then Ok (firstn (N.to_nat n) s, skipn (N.to_nat n) s) else Err EEof.

Definition le_decode (bs : list N) : N := fold_right (fun x acc => x + 256 * acc) 0 bs.

Definition read_header (s : list N) : res (header * list N) :=
  mr <- read_exact 6 s ;;
  let (magic, r0) := mr : list N * list N in
  if negb (list_eqb magic MAGIC) then Err ENotNpy else
  vr <- read_exact 2 r0 ;;
  let (ver, r1) := vr : list N * list N in
  let major := hd 0 ver in
  lr <- (if major =? 1 then read_exact 2 r1
         else if (major =? 2) || (major =? 3) then read_exact 4 r1
         else Err EVersion) ;;
  let (lenb, r2) := lr : list N * list N in
  hr <- read_exact (le_decode lenb) r2 ;;
  let (hbytes, r3) := hr : list N * list N in
  if negb (utf8_valid hbytes) then Err EUtf8 else
  h <- parse_header hbytes ;;
  Ok (h, r3).

(* ------------------------------------------------------------ machine arithmetic *)
Definition u32_max : N := 4294967295.
Definition checked_mul (a c : N) : option N := if a * c <? two64 then Some (a * c) else None.

(* usize `*` / `+` : panic with overflow checks, wrap without *)
Definition mul_usize (dbg : bool) (a c : N) : res N :=
  if a * c <? two64 then Ok (a * c) else if dbg then Panic else Ok (wrap64 (a * c)).
Definition add_usize (dbg : bool) (a c : N) : res N :=
  if a + c <? two64 then Ok (a + c) else if dbg then Panic else Ok (wrap64 (a + c)).

(* try_fold(1, checked_mul) *)
Fixpoint checked_product (acc : N) (shape : list N) : option N :=
  match shape with
  | [] => Some acc
  | d :: r => match checked_mul acc d with Some a => checked_product a r | None => None end
  end.

(* DynLayout::contiguous_shape_and_strides: `stride *= shape[i]` from the last dimension;
   returns the strides (innermost first = for the reversed shape) *)
Fixpoint strides_loop (dbg : bool) (rshape : list N) (stride : N) : res (list N) :=
  match rshape with
  | [] => Ok []
  | d :: r =>
      s' <- mul_usize dbg stride d ;;
      rest <- strides_loop dbg r s' ;;
      Ok (stride :: rest)
  end.

(* Layout::len = shape.iter().product() *)
Fixpoint product_usize (dbg : bool) (shape : list N) (acc : N) : res N :=
  match shape with
  | [] => Ok acc
  | d :: r => a <- mul_usize dbg acc d ;; product_usize dbg r a
  end.

(* Layout::min_data_len over (size, stride) pairs *)
Fixpoint max_offset (dbg : bool) (dims : list (N * N)) (acc : N) : res N :=
  match dims with
  | [] => Ok acc
  | (size, stride) :: r =>
      t <- mul_usize dbg (size - 1) stride ;;
      a <- add_usize dbg acc t ;;
      max_offset dbg r a
  end.

Definition min_data_len (dbg : bool) (rshape rstrides : list N) : res N :=
  if existsb (N.eqb 0) rshape then Ok 0
  else m <- max_offset dbg (rev (combine rshape rstrides)) 0 ;; add_usize dbg m 1.

(* Tensor::from_data(shape, data with n elements): panics on List.length mismatch *)
Definition from_data_check (dbg : bool) (shape : list N) (n : N) : res unit :=
  st <- strides_loop dbg (rev shape) 1 ;;
  m <- min_data_len dbg (rev shape) st ;;
  if m =? n then Ok tt else Panic.

(* Tensor::from_vec(values).reshaped(shape'): contiguous source, so only the element count
   is compared (Layout::len of the new layout) *)
Definition reshape_check (dbg : bool) (shape' : list N) (n : N) : res unit :=
  _ <- from_data_check dbg [n] n ;;
  _ <- strides_loop dbg (rev shape') 1 ;;
  p <- product_usize dbg shape' 1 ;;
  if p =? n then Ok tt else Panic.

(* ------------------------------------------------------------ element codecs *)
Fixpoint le_bytes (size : nat) (x : N) : list N :=
  match size with
  | O => []
  | S k => (x mod 256) :: le_bytes k (x / 256)
  end.

Definition encode_elem (d : dtype) (x : N) : list N := le_bytes (N.to_nat (item_size d)) x.

Definition decode_elem (d : dtype) (be : bool) (chunk : list N) : N :=
  let bs := if be && (1 <? item_size d) then rev chunk else chunk in
  match d with
  | DBool => if hd 0 bs =? 0 then 0 else 1
  | _ => le_decode bs
  end.

Fixpoint chunks (fuel : nat) (size : nat) (s : list N) : list (list N) :=
  match fuel with
  | O => []
  | S f => if (List.length s <? size)%nat then [] else firstn size s :: chunks f size (skipn size s)
  end.

(* ------------------------------------------------------------ fortran_order_to_row_major *)
Fixpoint unravel_rev (rshape : list N) (i : N) : list N :=
  match rshape with
  | [] => []
  | d :: r => (i mod d) :: unravel_rev r (i / d)
  end.
Fixpoint foffset (shape idx : list N) (mult : N) : N :=
  match shape, idx with
  | d :: sr, i :: ir => i * mult + foffset sr ir (mult * d)
  | _, _ => 0
  end.
Definition prodN (l : list N) : N := fold_right N.mul 1 l.

Definition fortran_to_row_major (shape values : list N) : list N :=
  if (List.length shape <? 2)%nat then values
  else map (fun i => nth (N.to_nat (foffset shape (rev (unravel_rev (rev shape) (N.of_nat i))) 1)) values 0)
           (seq 0 (N.to_nat (prodN shape))).

(* ------------------------------------------------------------ read *)
Inductive outcome :=
| ROk (d : dtype) (shape : list N) (elems : list N)
| RErr (e : err)
| RPanic
| RFuel
| RTimeout.

(* the size decisions of read_typed, before any data is consumed *)
Definition size_check (d : dtype) (shape : list N) : res N :=
  (* zero-sized dimensions count as 1 for the overflow check (as NumPy does), so that every
     stride computed from the shape fits in usize *)
  match checked_product 1 (map (N.max 1) shape) with
  | None => Err ECount
  | Some _ =>
      match checked_product 1 shape with
      | None => Err ECount
      | Some n =>
          match checked_mul n (item_size d) with
          | None => Err EBytes
          | Some nb => if u32_max <? nb then Err ETooLarge else Ok nb
          end
      end
  end.

Definition read_typed (dbg : bool) (d : dtype) (h : header) (rest : list N) : res (list N) :=
  nb <- size_check d (h_shape h) ;;
  if lenN rest <? nb then Err ETruncated else
  let data := firstn (N.to_nat nb) rest in
  let sz := N.to_nat (item_size d) in
  let values := map (decode_elem d (dd_be (h_dtype h))) (chunks (S (List.length data)) sz data) in
  let n := lenN values in
  values' <- (if h_fortran h && negb (List.length (h_shape h) <? 2)%nat
              then _ <- reshape_check dbg (rev (h_shape h)) n ;; Ok (fortran_to_row_major (h_shape h) values)
              else Ok values) ;;
  _ <- from_data_check dbg (h_shape h) (lenN values') ;;
  Ok values'.

Definition read (dbg : bool) (s : list N) : outcome :=
  match read_header s with
  | Err e => RErr e | Panic => RPanic | Fuel => RFuel
  | Ok (h, rest) =>
      match data_type_of (h_dtype h) with
      | None => RErr EDtype
      | Some d =>
          match read_typed dbg d h rest with
          | Ok vs => ROk d (h_shape h) vs
          | Err e => RErr e | Panic => RPanic | Fuel => RFuel
          end
      end
  end.

(* ------------------------------------------------------------ write *)
Fixpoint join_dims (l : list (list N)) : list N :=
  match l with
  | [] => []
  | [x] => x
  | x :: r => x ++ B ", " ++ join_dims r
  end.

Definition dims_text (shape : list N) : list N :=
  join_dims (map to_string shape) ++ (if (List.length shape =? 1)%nat then B "," else []).

Definition dict_text (d : dtype) (shape : list N) : list N :=
  B "{'descr': '" ++ descr d ++ B "', 'fortran_order': False, 'shape': (" ++ dims_text shape ++ B "), }".

Definition HEADER_ALIGN : N := 64.
Definition next_multiple_of (x m : N) : N := if x mod m =? 0 then x else x + (m - x mod m).

Definition build_header (d : dtype) (shape : list N) : res (list N) :=
  let dict := dict_text d shape in
  let prefix_len := 10 in
  let unpadded := prefix_len + lenN dict + 1 in
  let padding := next_multiple_of unpadded HEADER_ALIGN - unpadded in
  let dict' := dict ++ repeat 32 (N.to_nat padding) ++ [10] in
  if 65535 <? lenN dict' then Err EHeaderTooLarge
  else Ok (MAGIC ++ [1; 0] ++ le_bytes 2 (lenN dict') ++ dict').

Definition write (d : dtype) (shape elems : list N) : res (list N) :=
  h <- build_header d shape ;;
  Ok (h ++ flat_map (encode_elem d) elems).

(* ------------------------------------------------------------ npz member names, safetensors dtypes *)
Definition NPY_SUFFIX := B ".npy".

Definition strip_suffix (suf s : list N) : option (list N) :=
  let n := (List.length s - List.length suf)%nat in
  if (List.length suf <=? List.length s)%nat && list_eqb (skipn n s) suf then Some (firstn n s) else None.

(* npz_file_name: Ok (archive member name) or InvalidInput for an empty base *)
Definition npz_file_name (name : list N) : option (list N) :=
  let base := match strip_suffix NPY_SUFFIX name with Some x => x | None => name end in
  match base with [] => None | _ => Some (base ++ NPY_SUFFIX) end.

(* the key under which npz::read returns a member *)
Definition npz_read_key (member : list N) : option (list N) := strip_suffix NPY_SUFFIX member.

(* safetensors Dtype names as they appear in the file's JSON header *)
Definition st_name (d : dtype) : list N :=
  match d with
  | DBool => B "BOOL" | DI8 => B "I8" | DI16 => B "I16" | DI32 => B "I32" | DI64 => B "I64"
  | DU8 => B "U8" | DU16 => B "U16" | DU32 => B "U32" | DU64 => B "U64"
  | DF32 => B "F32" | DF64 => B "F64"
  end.
Definition all_dtypes := [DBool; DI8; DI16; DI32; DI64; DU8; DU16; DU32; DU64; DF32; DF64].
Definition st_dtype_of_name (n : list N) : option dtype :=
  find (fun d => list_eqb (st_name d) n) all_dtypes.

(* ------------------------------------------------------------ specification side *)
Definition valid_elem (d : dtype) (x : N) : Prop :=
  match d with DBool => x < 2 | _ => x < 2 ^ (8 * item_size d) end.
Definition valid_elemb (d : dtype) (x : N) : bool :=
  match d with DBool => x <? 2 | _ => x <? 2 ^ (8 * item_size d) end.

(* ------------------------------------------------------------ correspondence cases *)
Definition err_eqb (x y : err) : bool :=
  match x, y with
  | EEof, EEof | ENotNpy, ENotNpy | EVersion, EVersion | EUtf8, EUtf8 | EUnterminated, EUnterminated
  | EStrUtf8, EStrUtf8 | EBool, EBool | EInt, EInt | EIntRange, EIntRange | EKey, EKey
  | EDescr, EDescr | EDtype, EDtype | ECount, ECount | EBytes, EBytes | ETooLarge, ETooLarge
  | ETruncated, ETruncated | EHeaderTooLarge, EHeaderTooLarge | EOther, EOther => true
  | EExpect a, EExpect c => a =? c
  | EMissing a, EMissing c => a =? c
  | _, _ => false
  end.

Definition outcome_eqb (x y : outcome) : bool :=
  match x, y with
  | ROk d s e, ROk d' s' e' => dtype_eqb d d' && list_eqb s s' && list_eqb e e'
  | RErr a, RErr c => err_eqb a c
  | RPanic, RPanic | RFuel, RFuel | RTimeout, RTimeout => true
  | _, _ => false
  end.

Definition opt_list_eqb (x y : option (list N)) : bool :=
  match x, y with
  | Some a, Some c => list_eqb a c
  | None, None => true
  | _, _ => false
  end.

Inductive fmt := FNpy | FNpz | FSafetensors.

Inductive case :=
(* npy::read on arbitrary bytes *)
| CRead (dbg : bool) (bytes : list N) (impl : outcome)
(* write a tensor (through some view of it) and read it back.  [written]: the bytes
   npy::write produced (npy only, else []); [aux_in]/[aux_out]: npz: array name given /
   key returned by npz::read; safetensors: [] / dtype string found in the file header *)
| CRound (dbg : bool) (f : fmt) (d : dtype) (shape elems : list N)
         (written : list N) (aux_in : list N) (aux_out : option (list N)) (impl : outcome)
(* a tensor too large to materialise (broadcast view): header + byte count written by
   npy::write, outcome of reading it back from header ++ zeros *)
| CBig (dbg : bool) (d : dtype) (shape : list N) (written_header : list N) (written_len : N) (impl : outcome)
(* npz::read / safetensors::read on arbitrary bytes: archive and JSON parsing are third-party
   (not modelled); only the outcome class is recorded: 0 Ok, 1 Err, 2 Panic, 3 Timeout *)
| CReadOther (dbg : bool) (f : fmt) (cls : N)
(* several named tensors written into ONE npz / safetensors archive.  [wrote]: the writer
   returned Ok; [rb]: everything `read` returned, as (key, tensor); [ra]: what
   `read_array(name_i)` returned for every written name, in order *)
| CMulti (dbg : bool) (f : fmt) (entries : list (list N * (dtype * (list N * list N))))
         (wrote : bool) (rb : list (list N * outcome)) (ra : list outcome).

Definition model_big (d : dtype) (shape : list N) (hdr : list N) : outcome :=
  match read_header hdr with
  | Ok (h, _) =>
      match data_type_of (h_dtype h) with
      | Some d' => match size_check d' (h_shape h) with
                   | Ok _ => ROk d' (h_shape h) []
                   | Err e => RErr e | Panic => RPanic | Fuel => RFuel
                   end
      | None => RErr EDtype
      end
  | Err e => RErr e | Panic => RPanic | Fuel => RFuel
  end.

(* Specification of archive entry names, written independently of [npz_file_name]: the key
   under which a tensor written as [name] must be found again.  npz: "names may be passed
   with or without the .npy suffix" -- one trailing ".npy" is not part of the name;
   safetensors: the name itself. *)
Definition spec_key (f : fmt) (name : list N) : list N :=
  match f with
  | FNpz => match rev name with
            | a1 :: a2 :: a3 :: a4 :: r =>                 (* "ypn." *)
                if (a1 =? 121) && (a2 =? 112) && (a3 =? 110) && (a4 =? 46) then rev r else name
            | _ => name
            end
  | _ => name
  end.

Fixpoint distinctb (l : list (list N)) : bool :=
  match l with
  | [] => true
  | x :: r => negb (existsb (list_eqb x) r) && distinctb r
  end.

Definition subsetb (a c : list (list N)) : bool := forallb (fun x => existsb (list_eqb x) c) a.
Definition list_eqb_keys (a c : list (list N)) : bool :=
  (List.length a =? List.length c)%nat && subsetb a c && subsetb c a.

Definition entry_outcome (e : list N * (dtype * (list N * list N))) : outcome :=
  let '(_, (d, (sh, el))) := e in ROk d sh el.

(* the model's view of a multi-entry npz write: member names, or None when refused *)
Fixpoint npz_members (names : list (list N)) : option (list (list N)) :=
  match names with
  | [] => Some []
  | n :: r => match npz_file_name n, npz_members r with
              | Some m, Some ms => Some (m :: ms)
              | _, _ => None
              end
  end.

Definition agree (c : case) : bool :=
  match c with
  | CRead dbg bytes impl => outcome_eqb (read dbg bytes) impl
  | CRound dbg f d shape elems written aux_in aux_out impl =>
      match f with
      | FNpy =>
          match write d shape elems with
          | Ok w => list_eqb w written && outcome_eqb (read dbg written) impl
          | _ => false
          end
      | FNpz =>
          match npz_file_name aux_in with
          | Some member => opt_list_eqb (npz_read_key member) aux_out
          | None => match aux_out with None => true | Some _ => false end
          end
      | FSafetensors => opt_list_eqb (Some (st_name d)) aux_out
      end
  | CBig dbg d shape hdr wlen impl =>
      match build_header d shape with
      | Ok h => list_eqb h hdr && (wlen =? lenN h + prodN shape * item_size d) &&
                match impl, model_big d shape hdr with
                | RErr a, RErr c => err_eqb a c
                | ROk _ _ _, ROk _ _ _ => true
                | _, _ => false
                end
      | _ => false
      end
  | CReadOther _ _ _ => true
  | CMulti _ f entries wrote rb ra =>
      match f with
      | FNpz =>
          (* the writer succeeds iff no name has an empty base and the member names are
             distinct (zip refuses duplicates); keys returned are the stripped member names *)
          match npz_members (map fst entries) with
          | Some ms =>
              if distinctb ms
              then wrote && list_eqb_keys (map (fun m => match npz_read_key m with Some k => k | None => m end) ms) (map fst rb)
              else negb wrote
          | None => negb wrote
          end
      | _ => true
      end
  end.

(* the implementation's own outcome satisfies the property: arbitrary bytes give a value or
   an error; a written tensor reads back with the same dtype, shape and elements *)
Definition prop_ok (c : case) : bool :=
  match c with
  | CRead _ _ impl => match impl with ROk _ _ _ | RErr _ => true | _ => false end
  | CRound _ f d shape elems _ aux_in aux_out impl =>
      (match f with
       | FNpz =>
           (* an array name with an empty base ("" or ".npy") is refused by npz::write;
              otherwise the tensor is read back unchanged AND under its own name *)
           if list_eqb (spec_key FNpz aux_in) []
           then match impl with RErr _ => true | _ => false end
           else outcome_eqb impl (ROk d shape elems) && opt_list_eqb aux_out (Some (spec_key FNpz aux_in))
       | _ => outcome_eqb impl (ROk d shape elems)
       end)
  | CBig _ d shape _ _ impl =>
      match impl with ROk d' s' _ => dtype_eqb d d' && list_eqb shape s' | _ => false end
  | CReadOther _ _ cls => cls <? 2
  | CMulti _ f entries wrote rb ra =>
      let keys := map (fun e => spec_key f (fst e)) entries in
      if existsb (fun k => list_eqb k []) keys || negb (distinctb keys)
      then (* an empty or repeated name cannot be stored: the writer must refuse (npz);
              nothing is required of safetensors, whose writer keeps one of the duplicates *)
           match f with FNpz => negb wrote | _ => true end
      else
        (* every written (name, tensor) pair is read back under the SAME name with the same
           dtype, shape and elements -- by read (nothing else in the archive) and by read_array *)
        wrote &&
        (List.length rb =? List.length entries)%nat &&
        forallb (fun e => existsb (fun r => list_eqb (fst r) (spec_key f (fst e)) &&
                                            outcome_eqb (snd r) (entry_outcome e)) rb) entries &&
        (List.length ra =? List.length entries)%nat &&
        forallb (fun p => outcome_eqb (snd p) (entry_outcome (fst p))) (combine entries ra)
  end.

Definition show (c : case) :=
  match c with
  | CRead dbg bytes _ => (read dbg bytes, @None (res (list N)))
  | CRound dbg f d shape elems written _ _ _ => (read dbg written, Some (write d shape elems))
  | CBig dbg d shape hdr _ _ => (model_big d shape hdr, Some (build_header d shape))
  | CReadOther _ _ _ => (RErr EOther, None)
  | CMulti _ _ _ _ _ _ => (RErr EOther, None)
  end.
