(* Basic facts about the header parser of Npy.v: consumed input only shrinks, the two
   fuel-driven loops never run out of fuel and do not depend on the amount of fuel, and
   step equations for them. *)
From RV Require Import Prelude.
From Coq Require Import String.
From Npy Require Import Npy.
Open Scope N_scope.

Definition safe {A} (r : res A) : Prop := match r with Ok _ | Err _ => True | Panic | Fuel => False end.

Lemma safe_bind {A C} (r : res A) (f : A -> res C) :
  safe r -> (forall a, r = Ok a -> safe (f a)) -> safe (bind r f).
Proof. destruct r; cbn; intros H Hf; try contradiction; auto. Qed.

Lemma bind_ok {A C} (r : res A) (f : A -> res C) c :
  bind r f = Ok c -> exists a, r = Ok a /\ f a = Ok c.
Proof. destruct r; cbn; intros H; try discriminate. eauto. Qed.

(* ------------------------------------------------------------ lengths *)
Lemma skip_ws_le s : (List.length (skip_ws s) <= List.length s)%nat.
Proof.
  induction s as [|c r IH]; cbn [skip_ws]; [lia|].
  destruct (is_ws c); cbn [List.length]; lia.
Qed.

Lemma consume_len c s r : consume c s = Some r -> List.length s = S (List.length r).
Proof.
  destruct s as [|x s']; cbn [consume]; [discriminate|].
  destruct (x =? c); [|discriminate]. intros H; inversion H; subst. reflexivity.
Qed.

Lemma consume_opt_le c s : (List.length (consume_opt c s) <= List.length s)%nat.
Proof.
  unfold consume_opt. destruct (consume c s) eqn:E; [|lia].
  apply consume_len in E. lia.
Qed.

Lemma expect_len c s r : expect c s = Ok r -> List.length s = S (List.length r).
Proof.
  unfold expect. destruct (consume c s) eqn:E; [|discriminate].
  intros H; inversion H; subst. eapply consume_len; eauto.
Qed.

Lemma expect_safe c s : safe (expect c s).
Proof. unfold expect. destruct (consume c s); exact I. Qed.

Lemma take_until_quote_len s v r :
  take_until_quote s = Some (v, r) -> (List.length r < List.length s)%nat.
Proof.
  revert v r; induction s as [|c s IH]; intros v r; cbn [take_until_quote]; [discriminate|].
  destruct (c =? QUOTE).
  - intros H; inversion H; subst. cbn [List.length]. lia.
  - destruct (take_until_quote s) as [[v' r']|] eqn:E; [|discriminate].
    intros H; inversion H; subst. specialize (IH _ _ eq_refl). cbn [List.length]. lia.
Qed.

Lemma parse_string_safe s : safe (parse_string s).
Proof.
  unfold parse_string. apply safe_bind; [apply expect_safe|].
  intros r _. destruct (take_until_quote r) as [[v r']|]; [|exact I].
  destruct (utf8_valid v); exact I.
Qed.

Lemma parse_string_ok s v r :
  parse_string s = Ok (v, r) -> (List.length r < List.length s)%nat /\ utf8_valid v = true.
Proof.
  unfold parse_string. intros H. apply bind_ok in H. destruct H as (r0 & He & H).
  apply expect_len in He.
  destruct (take_until_quote r0) as [[v' r']|] eqn:E; [|discriminate].
  destruct (utf8_valid v') eqn:Ev; [|discriminate].
  inversion H; subst. apply take_until_quote_len in E. split; [lia|exact Ev].
Qed.

Lemma skipn_len {A} n (l : list A) : (List.length (skipn n l) <= List.length l)%nat.
Proof. rewrite skipn_length. lia. Qed.

Lemma prefixb_len p s : prefixb p s = true -> (List.length p <= List.length s)%nat.
Proof.
  revert s; induction p as [|x p IH]; intros s; cbn [prefixb List.length]; [lia|].
  destruct s as [|y s]; [discriminate|]. intros H. apply andb_true_iff in H. destruct H as [_ H].
  apply IH in H. cbn [List.length]. lia.
Qed.

Lemma parse_bool_safe s : safe (parse_bool s).
Proof. unfold parse_bool. destruct (prefixb _ s); [exact I|]. destruct (prefixb _ s); exact I. Qed.

Lemma parse_bool_ok s v r : parse_bool s = Ok (v, r) -> (List.length r < List.length s)%nat.
Proof.
  unfold parse_bool.
  destruct (prefixb (B "True") s) eqn:E1.
  - intros H. assert (Hr : r = skipn 4 s) by congruence. rewrite Hr.
    apply prefixb_len in E1. change (List.length (B "True")) with 4%nat in E1.
    rewrite skipn_length. lia.
  - destruct (prefixb (B "False") s) eqn:E2; [|discriminate].
    intros H. assert (Hr : r = skipn 5 s) by congruence. rewrite Hr.
    apply prefixb_len in E2. change (List.length (B "False")) with 5%nat in E2.
    rewrite skipn_length. lia.
Qed.

Lemma take_digits_len s ds r :
  take_digits s = (ds, r) -> List.length s = (List.length ds + List.length r)%nat.
Proof.
  revert ds r; induction s as [|c s IH]; intros ds r; cbn [take_digits].
  - intros H; inversion H; subst. reflexivity.
  - destruct (is_digit c).
    + destruct (take_digits s) as [ds' r'] eqn:E. intros H; inversion H; subst.
      specialize (IH _ _ eq_refl). cbn [List.length]. lia.
    + intros H; inversion H; subst. reflexivity.
Qed.

Lemma parse_usize_safe s : safe (parse_usize s).
Proof.
  unfold parse_usize. destruct (take_digits s) as [ds r]. destruct ds; [exact I|].
  destruct (dval _ <? two64); exact I.
Qed.

Lemma parse_usize_ok s v r :
  parse_usize s = Ok (v, r) -> (List.length r < List.length s)%nat /\ v < two64.
Proof.
  unfold parse_usize. destruct (take_digits s) as [ds r'] eqn:E. apply take_digits_len in E.
  destruct ds as [|d ds]; [discriminate|].
  destruct (dval (d :: ds) <? two64) eqn:El; [|discriminate].
  intros H; inversion H; subst. cbn [List.length] in E. split; [lia|apply N.ltb_lt; exact El].
Qed.

(* ------------------------------------------------------------ shape loop *)
Lemma shape_loop_props fuel : forall s acc,
  (List.length s < fuel)%nat ->
  safe (shape_loop fuel s acc) /\
  (forall sh r, shape_loop fuel s acc = Ok (sh, r) -> (List.length r < List.length s)%nat).
Proof.
  induction fuel as [|f IH]; intros s acc Hf; [lia|].
  cbn [shape_loop].
  pose proof (skip_ws_le s) as Hws.
  destruct (consume 41 (skip_ws s)) as [r|] eqn:Ec.
  - split; [exact I|]. intros sh r' H; inversion H; subst. apply consume_len in Ec. lia.
  - pose proof (parse_usize_safe (skip_ws s)) as Hs.
    destruct (parse_usize (skip_ws s)) as [[v r]| | |] eqn:Ep; cbn [bind]; try contradiction.
    + apply parse_usize_ok in Ep. destruct Ep as [Hl _].
      pose proof (skip_ws_le r) as H1. pose proof (consume_opt_le 44 (skip_ws r)) as H2.
      destruct (IH (consume_opt 44 (skip_ws r)) (v :: acc)) as [Hsafe Hok]; [lia|].
      split; [exact Hsafe|]. intros sh r' H. apply Hok in H. lia.
    + split; [exact I|]. intros; discriminate.
Qed.

Lemma shape_loop_fuel f1 : forall f2 s acc,
  (List.length s < f1)%nat -> (List.length s < f2)%nat ->
  shape_loop f1 s acc = shape_loop f2 s acc.
Proof.
  induction f1 as [|f1 IH]; intros f2 s acc H1 H2; [lia|].
  destruct f2 as [|f2]; [lia|]. cbn [shape_loop].
  pose proof (skip_ws_le s) as Hws.
  destruct (consume 41 (skip_ws s)); [reflexivity|].
  destruct (parse_usize (skip_ws s)) as [[v r]| | |] eqn:Ep; cbn [bind]; try reflexivity.
  apply parse_usize_ok in Ep. destruct Ep as [Hl _].
  pose proof (skip_ws_le r). pose proof (consume_opt_le 44 (skip_ws r)).
  apply IH; lia.
Qed.

Definition shape_run (s acc : list N) : res (list N * list N) := shape_loop (S (List.length s)) s acc.

Lemma shape_run_step s acc :
  shape_run s acc =
  match consume 41 (skip_ws s) with
  | Some r => Ok (rev acc, r)
  | None =>
      vr <- parse_usize (skip_ws s) ;;
      let (v, r) := vr : N * list N in
      shape_run (consume_opt 44 (skip_ws r)) (v :: acc)
  end.
Proof.
  unfold shape_run at 1. cbn [shape_loop].
  destruct (consume 41 (skip_ws s)); [reflexivity|].
  destruct (parse_usize (skip_ws s)) as [[v r]| | |] eqn:Ep; cbn [bind]; try reflexivity.
  apply parse_usize_ok in Ep. destruct Ep as [Hl _].
  pose proof (skip_ws_le s). pose proof (skip_ws_le r). pose proof (consume_opt_le 44 (skip_ws r)).
  unfold shape_run. apply shape_loop_fuel; lia.
Qed.

Lemma parse_shape_run s : parse_shape s = (r <- expect 40 s ;; shape_run r []).
Proof. reflexivity. Qed.

Lemma parse_shape_safe s : safe (parse_shape s).
Proof.
  unfold parse_shape. apply safe_bind; [apply expect_safe|]. intros r _.
  apply shape_loop_props. lia.
Qed.

Lemma parse_shape_ok s sh r : parse_shape s = Ok (sh, r) -> (List.length r < List.length s)%nat.
Proof.
  unfold parse_shape. intros H. apply bind_ok in H. destruct H as (r0 & He & H).
  apply expect_len in He.
  destruct (shape_loop_props (S (List.length r0)) r0 []) as [_ Hok]; [lia|].
  apply Hok in H. lia.
Qed.

(* every dimension a successful parse_shape returns fits in usize *)
Lemma shape_loop_bounded fuel : forall s acc sh r,
  Forall (fun x => x < two64) acc ->
  shape_loop fuel s acc = Ok (sh, r) -> Forall (fun x => x < two64) sh.
Proof.
  induction fuel as [|f IH]; intros s acc sh r Ha; cbn [shape_loop]; [discriminate|].
  destruct (consume 41 (skip_ws s)).
  - intros H; inversion H; subst. apply Forall_rev. exact Ha.
  - destruct (parse_usize (skip_ws s)) as [[v r0]| | |] eqn:Ep; cbn [bind]; try discriminate.
    apply parse_usize_ok in Ep. destruct Ep as [_ Hv].
    apply IH. constructor; assumption.
Qed.

Lemma parse_shape_bounded s sh r : parse_shape s = Ok (sh, r) -> Forall (fun x => x < two64) sh.
Proof.
  unfold parse_shape. intros H. apply bind_ok in H. destruct H as (r0 & _ & H).
  eapply shape_loop_bounded; [|exact H]. constructor.
Qed.

(* ------------------------------------------------------------ UTF-8 and `descr[2..]` *)
Lemma utf8_head_not_cont c r : utf8_valid (c :: r) = true -> cont c = false.
Proof.
  cbn [utf8_valid]. unfold cont, in_range.
  destruct (c <? 128) eqn:E1.
  - intros _. apply N.ltb_lt in E1. apply andb_false_iff. left. apply N.leb_gt. exact E1.
  - destruct ((194 <=? c) && (c <=? 223)) eqn:E2.
    + intros _. apply andb_true_iff in E2. destruct E2 as [E2 _]. apply N.leb_le in E2.
      apply andb_false_iff. right. apply N.leb_gt. lia.
    + destruct ((224 <=? c) && (c <=? 239)) eqn:E3.
      * intros _. apply andb_true_iff in E3. destruct E3 as [E3 _]. apply N.leb_le in E3.
        apply andb_false_iff. right. apply N.leb_gt. lia.
      * destruct ((240 <=? c) && (c <=? 244)) eqn:E4; [|discriminate].
        intros _. apply andb_true_iff in E4. destruct E4 as [E4 _]. apply N.leb_le in E4.
        apply andb_false_iff. right. apply N.leb_gt. lia.
Qed.

Lemma utf8_ascii_tail c r : c < 128 -> utf8_valid (c :: r) = true -> utf8_valid r = true.
Proof. intros Hc. cbn [utf8_valid]. apply N.ltb_lt in Hc. rewrite Hc. auto. Qed.

Lemma parse_descr_safe v : utf8_valid v = true -> safe (parse_descr v).
Proof.
  intros Hv. unfold parse_descr.
  destruct v as [|c0 r0]; [exact I|].
  assert (Hbe : forall (k : bool -> res ddesc),
            (c0 < 128 -> forall x, safe (k x)) ->
            safe (bind (if c0 =? 62 then Ok true
                        else if (c0 =? 61) || (c0 =? 60) || (c0 =? 124) then Ok false else Err EDescr) k)).
  { intros k Hk.
    destruct (c0 =? 62) eqn:E1; [apply N.eqb_eq in E1; cbn [bind]; apply Hk; lia|].
    destruct ((c0 =? 61) || (c0 =? 60) || (c0 =? 124)) eqn:E2; [|exact I].
    cbn [bind]. apply Hk.
    apply orb_true_iff in E2. destruct E2 as [E2|E2]; [apply orb_true_iff in E2; destruct E2 as [E2|E2]|];
      apply N.eqb_eq in E2; lia. }
  apply Hbe. intros Hc0 be.
  destruct r0 as [|c1 r1]; [exact I|].
  assert (Hk : forall (k : kind -> res ddesc),
            (c1 < 128 -> forall x, safe (k x)) ->
            safe (bind (if c1 =? 98 then Ok KBool else if c1 =? 105 then Ok KInt
                        else if c1 =? 117 then Ok KUint else if c1 =? 102 then Ok KFloat else Err EDescr) k)).
  { intros k Hk.
    destruct (c1 =? 98) eqn:E1; [apply N.eqb_eq in E1; cbn [bind]; apply Hk; lia|].
    destruct (c1 =? 105) eqn:E2; [apply N.eqb_eq in E2; cbn [bind]; apply Hk; lia|].
    destruct (c1 =? 117) eqn:E3; [apply N.eqb_eq in E3; cbn [bind]; apply Hk; lia|].
    destruct (c1 =? 102) eqn:E4; [apply N.eqb_eq in E4; cbn [bind]; apply Hk; lia|].
    exact I. }
  apply Hk. intros Hc1 kd.
  apply safe_bind.
  - cbn [str_from2]. destruct r1 as [|c2 r2]; [exact I|].
    apply utf8_ascii_tail in Hv; [|exact Hc0]. apply utf8_ascii_tail in Hv; [|exact Hc1].
    rewrite (utf8_head_not_cont _ _ Hv). exact I.
  - intros rest _. destruct (usize_from_str rest); exact I.
Qed.

(* ------------------------------------------------------------ dictionary loop *)
Lemma parse_entry_props s acc :
  safe (parse_entry s acc) /\
  (forall r acc', parse_entry s acc = Ok (r, acc') -> (List.length r < List.length s)%nat).
Proof.
  unfold parse_entry.
  pose proof (parse_string_safe s) as Hs.
  destruct (parse_string s) as [[key r]| | |] eqn:Ek; cbn [bind]; try contradiction;
    [|split; [exact I|intros; discriminate]].
  apply parse_string_ok in Ek. destruct Ek as [Hk _].
  pose proof (skip_ws_le r) as Hw1.
  pose proof (expect_safe 58 (skip_ws r)) as He.
  destruct (expect 58 (skip_ws r)) as [r2| | |] eqn:Ee; cbn [bind]; try contradiction;
    [|split; [exact I|intros; discriminate]].
  apply expect_len in Ee.
  pose proof (skip_ws_le r2) as Hw2.
  destruct (list_eqb key K_DESCR).
  { pose proof (parse_string_safe (skip_ws r2)) as Hs2.
    destruct (parse_string (skip_ws r2)) as [[v r4]| | |] eqn:Ev; cbn [bind]; try contradiction;
      [|split; [exact I|intros; discriminate]].
    apply parse_string_ok in Ev. destruct Ev as [Hl Hu].
    pose proof (parse_descr_safe v Hu) as Hd.
    destruct (parse_descr v); cbn [bind]; try contradiction.
    - split; [exact I|]. intros r' acc' H; inversion H; subst. lia.
    - split; [exact I|intros; discriminate]. }
  destruct (list_eqb key K_FORTRAN).
  { pose proof (parse_bool_safe (skip_ws r2)) as Hs2.
    destruct (parse_bool (skip_ws r2)) as [[v r4]| | |] eqn:Ev; cbn [bind]; try contradiction;
      [|split; [exact I|intros; discriminate]].
    apply parse_bool_ok in Ev.
    split; [exact I|]. intros r' acc' H; inversion H; subst. lia. }
  destruct (list_eqb key K_SHAPE).
  { pose proof (parse_shape_safe (skip_ws r2)) as Hs2.
    destruct (parse_shape (skip_ws r2)) as [[v r4]| | |] eqn:Ev; cbn [bind]; try contradiction;
      [|split; [exact I|intros; discriminate]].
    apply parse_shape_ok in Ev.
    split; [exact I|]. intros r' acc' H; inversion H; subst. lia. }
  split; [exact I|intros; discriminate].
Qed.

Lemma dict_loop_safe fuel : forall s acc, (List.length s < fuel)%nat -> safe (dict_loop fuel s acc).
Proof.
  induction fuel as [|f IH]; intros s acc Hf; [lia|].
  cbn [dict_loop]. pose proof (skip_ws_le s) as Hws.
  destruct (consume 125 (skip_ws s)); [exact I|].
  destruct (parse_entry_props (skip_ws s) acc) as [Hs Hok].
  destruct (parse_entry (skip_ws s) acc) as [[r4 acc']| | |] eqn:Ep; cbn [bind]; try contradiction; [|exact I].
  specialize (Hok _ _ eq_refl).
  pose proof (skip_ws_le r4). pose proof (consume_opt_le 44 (skip_ws r4)).
  apply IH. lia.
Qed.

Lemma dict_loop_fuel f1 : forall f2 s acc,
  (List.length s < f1)%nat -> (List.length s < f2)%nat ->
  dict_loop f1 s acc = dict_loop f2 s acc.
Proof.
  induction f1 as [|f1 IH]; intros f2 s acc H1 H2; [lia|].
  destruct f2 as [|f2]; [lia|]. cbn [dict_loop].
  pose proof (skip_ws_le s) as Hws.
  destruct (consume 125 (skip_ws s)); [reflexivity|].
  destruct (parse_entry_props (skip_ws s) acc) as [_ Hok].
  destruct (parse_entry (skip_ws s) acc) as [[r4 acc']| | |] eqn:Ep; cbn [bind]; try reflexivity.
  specialize (Hok _ _ eq_refl).
  pose proof (skip_ws_le r4). pose proof (consume_opt_le 44 (skip_ws r4)).
  apply IH; lia.
Qed.

Definition dict_run (s : list N) (acc : hacc) : res hacc := dict_loop (S (List.length s)) s acc.

Lemma dict_run_step s acc :
  dict_run s acc =
  match consume 125 (skip_ws s) with
  | Some _ => Ok acc
  | None =>
      ra <- parse_entry (skip_ws s) acc ;;
      let (r4, acc') := ra : list N * hacc in
      dict_run (consume_opt 44 (skip_ws r4)) acc'
  end.
Proof.
  unfold dict_run at 1. cbn [dict_loop].
  destruct (consume 125 (skip_ws s)); [reflexivity|].
  destruct (parse_entry_props (skip_ws s) acc) as [_ Hok].
  destruct (parse_entry (skip_ws s) acc) as [[r4 acc']| | |] eqn:Ep; cbn [bind]; try reflexivity.
  specialize (Hok _ _ eq_refl).
  pose proof (skip_ws_le s). pose proof (skip_ws_le r4). pose proof (consume_opt_le 44 (skip_ws r4)).
  unfold dict_run. apply dict_loop_fuel; lia.
Qed.

Lemma parse_header_run s :
  parse_header s =
  (r <- expect 123 (skip_ws s) ;;
   acc <- dict_run r hacc0 ;;
   match a_descr acc with
   | None => Err (EMissing 0)
   | Some d =>
       match a_fortran acc with
       | None => Err (EMissing 1)
       | Some f =>
           match a_shape acc with
           | None => Err (EMissing 2)
           | Some sh => Ok {| h_dtype := d; h_fortran := f; h_shape := sh |}
           end
       end
   end).
Proof. reflexivity. Qed.

Lemma parse_header_safe s : safe (parse_header s).
Proof.
  unfold parse_header. apply safe_bind; [apply expect_safe|]. intros r _.
  apply safe_bind; [apply dict_loop_safe; lia|]. intros acc _.
  destruct (a_descr acc); [|exact I]. destruct (a_fortran acc); [|exact I].
  destruct (a_shape acc); exact I.
Qed.

(* the shape of a successfully parsed header consists of usize values *)
Lemma parse_entry_shape_bounded s acc r acc' :
  (forall sh, a_shape acc = Some sh -> Forall (fun x => x < two64) sh) ->
  parse_entry s acc = Ok (r, acc') ->
  (forall sh, a_shape acc' = Some sh -> Forall (fun x => x < two64) sh).
Proof.
  intros Hacc. unfold parse_entry. intros H.
  apply bind_ok in H. destruct H as ([key r1] & _ & H).
  apply bind_ok in H. destruct H as (r2 & _ & H).
  destruct (list_eqb key K_DESCR).
  { apply bind_ok in H. destruct H as ([v r4] & _ & H).
    apply bind_ok in H. destruct H as (d & _ & H). inversion H; subst. exact Hacc. }
  destruct (list_eqb key K_FORTRAN).
  { apply bind_ok in H. destruct H as ([v r4] & _ & H). inversion H; subst. exact Hacc. }
  destruct (list_eqb key K_SHAPE); [|discriminate].
  apply bind_ok in H. destruct H as ([v r4] & Hp & H). inversion H; subst.
  cbn [a_shape]. intros sh E. inversion E; subst. eapply parse_shape_bounded; eauto.
Qed.

Lemma dict_loop_shape_bounded fuel : forall s acc acc',
  (forall sh, a_shape acc = Some sh -> Forall (fun x => x < two64) sh) ->
  dict_loop fuel s acc = Ok acc' ->
  (forall sh, a_shape acc' = Some sh -> Forall (fun x => x < two64) sh).
Proof.
  induction fuel as [|f IH]; intros s acc acc' Hacc; cbn [dict_loop]; [discriminate|].
  destruct (consume 125 (skip_ws s)).
  - intros H; inversion H; subst. exact Hacc.
  - intros H. apply bind_ok in H. destruct H as ([r4 acc1] & Hp & H).
    eapply IH; [|exact H]. eapply parse_entry_shape_bounded; eauto.
Qed.

Lemma parse_header_shape_bounded s h :
  parse_header s = Ok h -> Forall (fun x => x < two64) (h_shape h).
Proof.
  unfold parse_header. intros H.
  apply bind_ok in H. destruct H as (r & _ & H).
  apply bind_ok in H. destruct H as (acc & Hd & H).
  destruct (a_descr acc); [|discriminate]. destruct (a_fortran acc); [|discriminate].
  destruct (a_shape acc) as [sh|] eqn:Es; [|discriminate].
  inversion H; subst. cbn [h_shape].
  eapply dict_loop_shape_bounded; [|exact Hd|exact Es]. cbn. intros; discriminate.
Qed.
