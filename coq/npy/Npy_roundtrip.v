(* C34, round trip: reading what npy::write produced returns the same dtype, shape and
   elements.  Decimal printing/parsing, the header text, little-endian codecs. *)
From RV Require Import Prelude.
From Coq Require Import String.
From Npy Require Import Npy Npy_basic Npy_total.
Open Scope N_scope.

(* ------------------------------------------------------------ decimal *)
Definition dvalacc (l : list N) (a : N) : N := fold_left (fun a d => a * 10 + (d - 48)) l a.

Lemma dval_acc l : dval l = dvalacc l 0. Proof. reflexivity. Qed.

Lemma dvalacc_app l1 l2 a : dvalacc (l1 ++ l2) a = dvalacc l2 (dvalacc l1 a).
Proof. unfold dvalacc. apply fold_left_app. Qed.

Lemma to_digits_acc fuel : forall n acc, to_digits fuel n acc = to_digits fuel n [] ++ acc.
Proof.
  induction fuel as [|f IH]; intros n acc; cbn [to_digits]; [reflexivity|].
  destruct (n / 10 =? 0); [reflexivity|].
  rewrite (IH (n / 10) ((48 + n mod 10) :: acc)), (IH (n / 10) [48 + n mod 10]).
  rewrite <- app_assoc. reflexivity.
Qed.

Lemma is_digit_mod n : is_digit (48 + n mod 10) = true.
Proof.
  unfold is_digit. pose proof (N.mod_lt n 10 ltac:(discriminate)) as H.
  set (m := n mod 10) in *. clearbody m.
  apply andb_true_iff. split; apply N.leb_le; lia.
Qed.

Lemma to_digits_spec fuel : forall n,
  (0 < fuel)%nat -> n < 2 ^ N.of_nat fuel ->
  to_digits fuel n [] <> [] /\ Forall (fun c => is_digit c = true) (to_digits fuel n []) /\
  dval (to_digits fuel n []) = n.
Proof.
  induction fuel as [|f IH]; intros n Hf Hn; [lia|].
  cbn [to_digits]. destruct (n / 10 =? 0) eqn:E.
  - apply N.eqb_eq in E. assert (n < 10) by (apply N.div_small_iff in E; lia).
    split; [discriminate|]. split; [constructor; [apply is_digit_mod|constructor]|].
    rewrite N.mod_small by lia. unfold dval. cbn [fold_left]. lia.
  - apply N.eqb_neq in E. rewrite to_digits_acc.
    assert (H10 : 10 <= n).
    { destruct (N.lt_ge_cases n 10) as [Hlt|Hge]; [|exact Hge]. rewrite N.div_small in E by lia. contradiction. }
    assert (Hf' : (0 < f)%nat).
    { destruct f; [|lia]. cbn in Hn. lia. }
    assert (Hn' : n / 10 < 2 ^ N.of_nat f).
    { rewrite Nat2N.inj_succ, N.pow_succ_r' in Hn.
      apply N.div_lt_upper_bound; [lia|]. lia. }
    destruct (IH (n / 10) Hf' Hn') as (Hne & Hall & Hval).
    split; [destruct (to_digits f (n / 10) []); [contradiction|discriminate]|].
    split; [apply Forall_app; split; [exact Hall|constructor; [apply is_digit_mod|constructor]]|].
    rewrite dval_acc, dvalacc_app, <- dval_acc, Hval. unfold dvalacc. cbn [fold_left].
    pose proof (N.div_mod n 10 ltac:(discriminate)) as Hdm.
    set (q := n / 10) in *. set (m := n mod 10) in *. clearbody q m. lia.
Qed.

Lemma to_string_spec n :
  to_string n <> [] /\ Forall (fun c => is_digit c = true) (to_string n) /\ dval (to_string n) = n.
Proof.
  unfold to_string. apply to_digits_spec; [lia|].
  rewrite Nat2N.inj_succ, N2Nat.id, N.pow_succ_r'.
  pose proof (N.size_gt n). lia.
Qed.

Lemma take_digits_app ds c r :
  Forall (fun c => is_digit c = true) ds -> is_digit c = false ->
  take_digits (ds ++ c :: r) = (ds, c :: r).
Proof.
  intros Hd Hc. induction Hd as [|x ds Hx Hds IH]; cbn [app take_digits].
  - rewrite Hc. reflexivity.
  - rewrite Hx, IH. reflexivity.
Qed.

Lemma parse_usize_to_string n c r :
  n < two64 -> is_digit c = false -> parse_usize (to_string n ++ c :: r) = Ok (n, c :: r).
Proof.
  intros Hn Hc. destruct (to_string_spec n) as (Hne & Hall & Hval).
  unfold parse_usize. rewrite take_digits_app by assumption.
  destruct (to_string n) as [|d ds] eqn:E; [contradiction|].
  rewrite Hval. apply N.ltb_lt in Hn. rewrite Hn. reflexivity.
Qed.

Lemma digit_not_ws c : is_digit c = true -> is_ws c = false.
Proof.
  unfold is_digit, is_ws. intros H. apply andb_true_iff in H. destruct H as [H1 _]. apply N.leb_le in H1.
  repeat (apply orb_false_iff; split); apply N.eqb_neq; lia.
Qed.

Lemma digit_not_41 c : is_digit c = true -> (c =? 41) = false.
Proof.
  unfold is_digit. intros H. apply andb_true_iff in H. destruct H as [H1 _]. apply N.leb_le in H1.
  apply N.eqb_neq. lia.
Qed.

(* ------------------------------------------------------------ the shape tuple *)
(* one number followed by a non-digit: one iteration of the loop *)
Lemma shape_run_number n c r acc :
  n < two64 -> is_digit c = false ->
  shape_run (to_string n ++ c :: r) acc = shape_run (consume_opt 44 (skip_ws (c :: r))) (n :: acc).
Proof.
  intros Hn Hc. rewrite shape_run_step.
  destruct (to_string_spec n) as (Hne & Hall & _).
  destruct (to_string n) as [|d ds] eqn:E; [contradiction|].
  inversion Hall as [|? ? Hd Hds]; subst.
  cbn [app skip_ws]. rewrite (digit_not_ws d Hd). cbn [consume]. rewrite (digit_not_41 d Hd).
  change (d :: ds ++ c :: r) with ((d :: ds) ++ c :: r). rewrite <- E.
  rewrite parse_usize_to_string by assumption. reflexivity.
Qed.

Lemma shape_run_close r acc : shape_run (41 :: r) acc = Ok (rev acc, r).
Proof. rewrite shape_run_step. reflexivity. Qed.

Lemma shape_run_dims xs : forall acc rest tail,
  xs <> [] -> Forall (fun x => x < two64) xs ->
  tail = 41 :: rest \/ tail = 44 :: 41 :: rest ->
  shape_run (join_dims (map to_string xs) ++ tail) acc = Ok (rev acc ++ xs, rest).
Proof.
  induction xs as [|x xs IH]; intros acc rest tail Hne Hall Ht; [contradiction|].
  inversion Hall as [|? ? Hx Hxs]; subst.
  destruct xs as [|y ys].
  - cbn [map join_dims].
    destruct Ht as [->| ->].
    + rewrite shape_run_number by (assumption || reflexivity).
      change (consume_opt 44 (skip_ws (41 :: rest))) with (41 :: rest).
      rewrite shape_run_close. cbn [rev]. reflexivity.
    + rewrite shape_run_number by (assumption || reflexivity).
      change (consume_opt 44 (skip_ws (44 :: 41 :: rest))) with (41 :: rest).
      rewrite shape_run_close. cbn [rev]. reflexivity.
  - assert (Hj : join_dims (map to_string (x :: y :: ys)) =
                 to_string x ++ 44 :: 32 :: join_dims (map to_string (y :: ys))) by reflexivity.
    rewrite Hj. rewrite <- app_assoc. cbn [app].
    rewrite shape_run_number by (assumption || reflexivity).
    (* after the comma: a space, then the next number *)
    assert (Hn : exists d ds, join_dims (map to_string (y :: ys)) ++ tail = d :: ds /\ is_digit d = true).
    { destruct (to_string_spec y) as (Hney & Hally & _).
      destruct (to_string y) as [|d ds] eqn:Ey; [contradiction|].
      inversion Hally; subst.
      destruct ys; cbn [map join_dims]; rewrite Ey; cbn [app]; eauto. }
    destruct Hn as (d & ds & Hds & Hd).
    assert (Hstep : consume_opt 44 (skip_ws (44 :: 32 :: join_dims (map to_string (y :: ys)) ++ tail)) =
                    32 :: join_dims (map to_string (y :: ys)) ++ tail) by reflexivity.
    rewrite Hstep.
    (* the loop skips the space *)
    assert (Hsp : forall s a, shape_run (32 :: s) a = shape_run s a \/ True) by (intros; right; exact I).
    rewrite shape_run_step. cbn [skip_ws]. change (is_ws 32) with true. cbv iota.
    rewrite <- shape_run_step.
    rewrite (IH (x :: acc) rest tail) by (assumption || discriminate).
    cbn [rev]. rewrite <- app_assoc. reflexivity.
Qed.

Lemma shape_run_dims_text shape rest :
  Forall (fun x => x < two64) shape ->
  shape_run (dims_text shape ++ 41 :: rest) [] = Ok (shape, rest).
Proof.
  intros Hall. destruct shape as [|x xs].
  - change (dims_text [] ++ 41 :: rest) with (41 :: rest). rewrite shape_run_close. reflexivity.
  - destruct xs as [|y ys].
    + assert (Hd : dims_text [x] = join_dims (map to_string [x]) ++ [44]) by reflexivity.
      rewrite Hd, <- app_assoc. cbn [app]. rewrite (shape_run_dims [x] [] rest (44 :: 41 :: rest)); auto; discriminate.
    + assert (Hd : dims_text (x :: y :: ys) = join_dims (map to_string (x :: y :: ys)) ++ []) by reflexivity.
      rewrite Hd, app_nil_r.
      rewrite (shape_run_dims (x :: y :: ys) [] rest (41 :: rest)); auto; discriminate.
Qed.

(* ------------------------------------------------------------ the dictionary *)
Definition kind_of (d : dtype) : kind :=
  match d with
  | DBool => KBool
  | DI8 | DI16 | DI32 | DI64 => KInt
  | DU8 | DU16 | DU32 | DU64 => KUint
  | DF32 | DF64 => KFloat
  end.
Definition ddesc_of (d : dtype) : ddesc := {| dd_be := false; dd_kind := kind_of d; dd_size := item_size d |}.

Lemma data_type_of_ddesc d : data_type_of (ddesc_of d) = Some d.
Proof. destruct d; reflexivity. Qed.

Definition acc_with_shape (d : dtype) (v : list N) : hacc :=
  {| a_descr := Some (ddesc_of d); a_fortran := Some false; a_shape := Some v |}.

(* the first two entries and the opening of the third, by evaluation on the concrete text *)
Lemma dict_prefix d f tail :
  dict_loop (S (S (S f)))
    (B "'descr': '" ++ descr d ++ B "', 'fortran_order': False, 'shape': (" ++ tail) hacc0 =
  bind (bind (shape_loop (S (List.length tail)) tail [])
             (fun vr => let (v, r4) := vr : list N * list N in Ok (r4, acc_with_shape d v)))
       (fun ra => let (r4, acc') := ra : list N * hacc in dict_loop f (consume_opt 44 (skip_ws r4)) acc').
Proof. destruct d; reflexivity. Qed.

Lemma dict_suffix f pad acc : dict_loop (S f) (B ", }" ++ pad) acc = dict_loop (S f) (B ", }" ++ pad) acc.
Proof. reflexivity. Qed.

Lemma parse_header_dict d shape pad :
  Forall (fun x => x < two64) shape ->
  parse_header (dict_text d shape ++ pad) =
  Ok {| h_dtype := ddesc_of d; h_fortran := false; h_shape := shape |}.
Proof.
  intros Hall. rewrite parse_header_run.
  unfold dict_text. rewrite <- !app_assoc.
  change (B "{'descr': '" ++ descr d ++ B "', 'fortran_order': False, 'shape': (" ++ dims_text shape ++ B "), }" ++ pad)
    with (123 :: (B "'descr': '" ++ descr d ++ B "', 'fortran_order': False, 'shape': (" ++ dims_text shape ++ B "), }" ++ pad)).
  set (r := B "'descr': '" ++ descr d ++ B "', 'fortran_order': False, 'shape': (" ++ dims_text shape ++ B "), }" ++ pad).
  change (expect 123 (skip_ws (123 :: r))) with (Ok (A := list N) r). cbn [bind].
  assert (Hrun : dict_run r hacc0 = dict_loop (S (S (S (S (List.length r))))) r hacc0).
  { unfold dict_run. apply dict_loop_fuel; lia. }
  rewrite Hrun. unfold r. rewrite dict_prefix.
  change (B "), }" ++ pad) with (41 :: (B ", }" ++ pad)).
  fold (shape_run (dims_text shape ++ 41 :: B ", }" ++ pad) []).
  rewrite shape_run_dims_text by exact Hall. cbn [bind].
  reflexivity.
Qed.

(* ------------------------------------------------------------ ASCII text is valid UTF-8 *)
Definition asciib (s : list N) : bool := forallb (fun c => c <? 128) s.

Lemma asciib_app a c : asciib (a ++ c) = asciib a && asciib c.
Proof. unfold asciib. apply forallb_app. Qed.

Lemma utf8_ascii s : asciib s = true -> utf8_valid s = true.
Proof.
  induction s as [|c r IH]; [reflexivity|]. unfold asciib. cbn [forallb utf8_valid].
  intros H. apply andb_true_iff in H. destruct H as [Hc Hr]. rewrite Hc. apply IH. exact Hr.
Qed.

Lemma digits_ascii ds : Forall (fun c => is_digit c = true) ds -> asciib ds = true.
Proof.
  intros H. unfold asciib. apply forallb_forall. intros c Hin.
  rewrite Forall_forall in H. specialize (H c Hin). unfold is_digit in H.
  apply andb_true_iff in H. destruct H as [_ H]. apply N.leb_le in H. apply N.ltb_lt. lia.
Qed.

Lemma join_dims_ascii l : Forall (fun s => asciib s = true) l -> asciib (join_dims l) = true.
Proof.
  induction l as [|x l IH]; intros H; [reflexivity|].
  inversion H as [|? ? Hx Hl]; subst. destruct l as [|y l']; [exact Hx|].
  change (join_dims (x :: y :: l')) with (x ++ B ", " ++ join_dims (y :: l')).
  rewrite !asciib_app, Hx, (IH Hl). reflexivity.
Qed.

Lemma dims_text_ascii shape : asciib (dims_text shape) = true.
Proof.
  unfold dims_text. rewrite asciib_app. apply andb_true_iff. split.
  - apply join_dims_ascii. apply Forall_forall. intros s Hin. apply in_map_iff in Hin.
    destruct Hin as (n & <- & _). apply digits_ascii. apply to_string_spec.
  - destruct (List.length shape =? 1)%nat; reflexivity.
Qed.

Lemma repeat_ascii k : asciib (repeat 32 k) = true.
Proof. induction k; [reflexivity|]. cbn [repeat]. unfold asciib in *. cbn [forallb]. rewrite IHk. reflexivity. Qed.

Lemma dict_ascii d shape k : asciib (dict_text d shape ++ repeat 32 k ++ [10]) = true.
Proof.
  unfold dict_text. rewrite !asciib_app, dims_text_ascii, repeat_ascii.
  destruct d; reflexivity.
Qed.

(* ------------------------------------------------------------ codecs *)
Lemma le_bytes_length k x : List.length (le_bytes k x) = k.
Proof. revert x; induction k; intros; cbn [le_bytes List.length]; [reflexivity|]. rewrite IHk. reflexivity. Qed.

Lemma le_decode_le_bytes k : forall x, x < 256 ^ N.of_nat k -> le_decode (le_bytes k x) = x.
Proof.
  induction k as [|k IH]; intros x Hx.
  - cbn in Hx. cbn. lia.
  - cbn [le_bytes]. unfold le_decode. cbn [fold_right]. fold (le_decode (le_bytes k (x / 256))).
    rewrite IH.
    + pose proof (N.div_mod x 256 ltac:(discriminate)) as Hdm.
      set (q := x / 256) in *. set (m := x mod 256) in *. clearbody q m. lia.
    + rewrite Nat2N.inj_succ, N.pow_succ_r' in Hx. apply N.div_lt_upper_bound; lia.
Qed.

Lemma decode_encode d x : valid_elem d x -> decode_elem d false (encode_elem d x) = x.
Proof.
  unfold valid_elem, decode_elem, encode_elem. cbn [andb].
  destruct d; intros Hx;
    try (apply le_decode_le_bytes; exact Hx).
  (* bool *)
  cbn. assert (x = 0 \/ x = 1) as [-> | ->] by lia; reflexivity.
Qed.

Lemma encode_length d x : List.length (encode_elem d x) = N.to_nat (item_size d).
Proof. apply le_bytes_length. Qed.

Lemma chunks_flat_map d : forall elems fuel,
  (List.length (flat_map (encode_elem d) elems) < fuel)%nat ->
  chunks fuel (N.to_nat (item_size d)) (flat_map (encode_elem d) elems) = map (encode_elem d) elems.
Proof.
  pose proof (item_size_pos d) as Hp.
  induction elems as [|x r IH]; intros fuel Hf.
  - destruct fuel; [lia|]. cbn [flat_map chunks List.length map].
    assert (E : (0 <? N.to_nat (item_size d))%nat = true) by (apply Nat.ltb_lt; lia). rewrite E. reflexivity.
  - destruct fuel; [lia|]. cbn [flat_map chunks map].
    rewrite app_length, encode_length in *.
    assert (E : (N.to_nat (item_size d) + List.length (flat_map (encode_elem d) r) <? N.to_nat (item_size d))%nat = false)
      by (apply Nat.ltb_ge; lia).
    rewrite E. f_equal.
    + rewrite firstn_app, encode_length, Nat.sub_diag. cbn [firstn]. rewrite app_nil_r.
      apply firstn_all2. rewrite encode_length. lia.
    + rewrite skipn_app, encode_length, Nat.sub_diag. cbn [skipn].
      rewrite skipn_all2 by (rewrite encode_length; lia). cbn [app].
      apply IH. cbn [flat_map] in Hf. rewrite app_length, encode_length in Hf. lia.
Qed.

Lemma flat_map_length d elems :
  lenN (flat_map (encode_elem d) elems) = lenN elems * item_size d.
Proof.
  unfold lenN. induction elems as [|x r IH]; [reflexivity|].
  cbn [flat_map List.length]. rewrite app_length, encode_length.
  rewrite Nat2N.inj_add, N2Nat.id, IH. rewrite Nat2N.inj_succ. lia.
Qed.

Lemma decoded_written d elems :
  Forall (valid_elem d) elems ->
  decoded d false (lenN elems * item_size d) (flat_map (encode_elem d) elems) = elems.
Proof.
  intros Hv. unfold decoded. rewrite <- flat_map_length.
  assert (Hl : N.to_nat (lenN (flat_map (encode_elem d) elems)) = List.length (flat_map (encode_elem d) elems))
    by (unfold lenN; apply Nat2N.id).
  rewrite Hl, firstn_all. clear Hl.
  rewrite chunks_flat_map by lia. rewrite map_map.
  induction Hv as [|x r Hx Hr IH]; [reflexivity|].
  cbn [map]. rewrite decode_encode by exact Hx. f_equal. exact IH.
Qed.

(* ------------------------------------------------------------ read_exact on concatenations *)
Lemma read_exact_app a r : read_exact (lenN a) (a ++ r) = Ok (a, r).
Proof.
  unfold read_exact, lenN. rewrite app_length.
  assert (E : (N.of_nat (List.length a) <=? N.of_nat (List.length a + List.length r)) = true)
    by (apply N.leb_le; lia).
  rewrite E, Nat2N.id. rewrite firstn_app, Nat.sub_diag, firstn_all. cbn [firstn]. rewrite app_nil_r.
  rewrite skipn_app, Nat.sub_diag, skipn_all. reflexivity.
Qed.

(* ------------------------------------------------------------ the header written by build_header *)
Lemma next_multiple_ge x m : 0 < m -> x <= next_multiple_of x m.
Proof. intros Hm. unfold next_multiple_of. destruct (x mod m =? 0); lia. Qed.

Lemma next_multiple_mod x m : 0 < m -> next_multiple_of x m mod m = 0.
Proof.
  intros Hm. unfold next_multiple_of. destruct (x mod m =? 0) eqn:E.
  - apply N.eqb_eq in E. exact E.
  - assert (Hm0 : m <> 0) by lia.
    pose proof (N.mod_lt x m Hm0) as Hlt. pose proof (N.div_mod x m Hm0) as Hd.
    assert (Hr : x + (m - x mod m) = (x / m + 1) * m).
    { set (q := x / m) in *. set (r := x mod m) in *. clearbody q r. nia. }
    rewrite Hr. apply N.mod_mul. exact Hm0.
Qed.

Definition padded_dict (d : dtype) (shape : list N) : list N :=
  let dict := dict_text d shape in
  let unpadded := 10 + lenN dict + 1 in
  dict ++ repeat 32 (N.to_nat (next_multiple_of unpadded HEADER_ALIGN - unpadded)) ++ [10].

Lemma build_header_form d shape h :
  build_header d shape = Ok h ->
  h = MAGIC ++ [1; 0] ++ le_bytes 2 (lenN (padded_dict d shape)) ++ padded_dict d shape /\
  lenN (padded_dict d shape) <= 65535.
Proof.
  unfold build_header. cbv zeta. fold (padded_dict d shape).
  destruct (65535 <? lenN (padded_dict d shape)) eqn:E; [discriminate|].
  apply N.ltb_ge in E. intros H; inversion H; subst. split; [reflexivity|exact E].
Qed.

Theorem header_aligned d shape h :
  build_header d shape = Ok h -> lenN h mod HEADER_ALIGN = 0.
Proof.
  intros H. apply build_header_form in H. destruct H as [-> _].
  unfold padded_dict. cbv zeta.
  set (dict := dict_text d shape). set (unp := 10 + lenN dict + 1).
  assert (Hge : unp <= next_multiple_of unp HEADER_ALIGN) by (apply next_multiple_ge; reflexivity).
  assert (Hl : lenN (MAGIC ++ [1; 0] ++ le_bytes 2 (lenN (dict ++ repeat 32 (N.to_nat (next_multiple_of unp HEADER_ALIGN - unp)) ++ [10])) ++
                     dict ++ repeat 32 (N.to_nat (next_multiple_of unp HEADER_ALIGN - unp)) ++ [10]) =
               next_multiple_of unp HEADER_ALIGN).
  { unfold lenN. rewrite !app_length, le_bytes_length, repeat_length. cbn [List.length MAGIC].
    unfold unp, lenN in *. lia. }
  rewrite Hl. apply next_multiple_mod. reflexivity.
Qed.

Lemma read_header_written d shape h data :
  Forall (fun x => x < two64) shape ->
  build_header d shape = Ok h ->
  read_header (h ++ data) =
  Ok ({| h_dtype := ddesc_of d; h_fortran := false; h_shape := shape |}, data).
Proof.
  intros Hall Hb. apply build_header_form in Hb. destruct Hb as [-> Hlen].
  set (pd := padded_dict d shape) in *.
  unfold read_header.
  rewrite <- !app_assoc.
  change 6 with (lenN MAGIC). rewrite read_exact_app. cbn [bind].
  change (negb (list_eqb MAGIC MAGIC)) with false. cbv iota.
  change ([1; 0] ++ le_bytes 2 (lenN pd) ++ pd ++ data) with ([1; 0] ++ (le_bytes 2 (lenN pd) ++ pd ++ data)).
  change 2 with (lenN [1; 0]) at 1. rewrite read_exact_app. cbn [bind].
  change (hd 0 [1; 0] =? 1) with true. cbv iota.
  assert (H2 : 2 = lenN (le_bytes 2 (lenN pd))) by (unfold lenN at 1; rewrite le_bytes_length; reflexivity).
  rewrite H2 at 1. rewrite read_exact_app. cbn [bind].
  rewrite le_decode_le_bytes by (change (256 ^ N.of_nat 2) with 65536; lia).
  rewrite read_exact_app. cbn [bind].
  unfold pd, padded_dict. cbv zeta.
  rewrite (utf8_ascii _ (dict_ascii d shape _)). cbn [negb].
  rewrite parse_header_dict by exact Hall. reflexivity.
Qed.

(* ------------------------------------------------------------ the round trip *)
Lemma pm_bound l : forall x, In x l -> x <= pm l.
Proof.
  induction l as [|d r IH]; intros x Hx; [destruct Hx|].
  rewrite pm_cons. pose proof (pm_pos r). destruct Hx as [->|Hin].
  - assert (x <= N.max 1 x) by lia. nia.
  - specialize (IH x Hin). assert (1 <= N.max 1 d) by lia. nia.
Qed.

Theorem npy_roundtrip dbg d shape elems bytes :
  pm shape < two64 ->                           (* the non-zero dimensions' product fits usize *)
  lenN elems = prodN shape ->
  Forall (valid_elem d) elems ->
  prodN shape * item_size d <= u32_max ->       (* below the reader's 4 GiB cap *)
  write d shape elems = Ok bytes ->
  read dbg bytes = ROk d shape elems.
Proof.
  intros Hpm Hlen Hvalid Hcap Hw.
  assert (Hall : Forall (fun x => x < two64) shape).
  { apply Forall_forall. intros x Hin. pose proof (pm_bound shape x Hin). lia. }
  unfold write in Hw. apply bind_ok in Hw. destruct Hw as (h & Hb & Hw). inversion Hw; subst bytes.
  unfold read. rewrite (read_header_written d shape h _ Hall Hb).
  cbn [h_dtype]. rewrite data_type_of_ddesc.
  assert (Hsc : size_check d shape = Ok (prodN shape * item_size d)).
  { unfold size_check.
    assert (E1 : checked_product 1 (map (N.max 1) shape) = Some (1 * prodN (map (N.max 1) shape))).
    { apply checked_product_complete.
      assert (Hmm : pm (map (N.max 1) shape) = pm shape).
      { unfold pm. rewrite map_map. f_equal. apply map_ext. intros a. lia. }
      rewrite Hmm. lia. }
    rewrite E1.
    rewrite (checked_product_complete shape 1) by lia.
    pose proof (prodN_le_pm shape).
    unfold checked_mul. rewrite N.mul_1_l.
    assert (E3 : (prodN shape * item_size d <? two64) = true).
    { apply N.ltb_lt. unfold u32_max, two64 in *. lia. }
    rewrite E3.
    assert (E4 : (u32_max <? prodN shape * item_size d) = false) by (apply N.ltb_ge; exact Hcap).
    rewrite E4. reflexivity. }
  rewrite (read_typed_ok dbg d {| h_dtype := ddesc_of d; h_fortran := false; h_shape := shape |}
             (flat_map (encode_elem d) elems) _ Hsc).
  - cbn [h_fortran h_shape h_dtype dd_be ddesc_of andb]. rewrite <- Hlen.
    rewrite decoded_written by exact Hvalid. reflexivity.
  - cbn [h_shape]. rewrite flat_map_length, Hlen. lia.
Qed.

(* the writer refuses only headers that do not fit the u16 length field *)
Theorem write_ok_iff d shape elems :
  (exists bytes, write d shape elems = Ok bytes) <-> lenN (padded_dict d shape) <= 65535.
Proof.
  unfold write, build_header. cbv zeta. fold (padded_dict d shape).
  destruct (65535 <? lenN (padded_dict d shape)) eqn:E; cbn [bind].
  - apply N.ltb_lt in E. split; [intros [x Hx]; discriminate|lia].
  - apply N.ltb_ge in E. split; [intros _; exact E|eauto].
Qed.

(* ------------------------------------------------------------ npz member names, safetensors dtypes *)
Lemma list_eqb_refl a : list_eqb a a = true.
Proof. induction a as [|x a IH]; [reflexivity|]. cbn [list_eqb]. rewrite N.eqb_refl, IH. reflexivity. Qed.

Lemma list_eqb_eq a : forall c, list_eqb a c = true -> a = c.
Proof.
  induction a as [|x a IH]; intros [|y c]; cbn [list_eqb]; try discriminate; [reflexivity|].
  intros H. apply andb_true_iff in H. destruct H as [H1 H2]. apply N.eqb_eq in H1. subst. f_equal. auto.
Qed.

Lemma strip_suffix_app base : strip_suffix NPY_SUFFIX (base ++ NPY_SUFFIX) = Some base.
Proof.
  unfold strip_suffix. rewrite app_length.
  replace (List.length base + List.length NPY_SUFFIX - List.length NPY_SUFFIX)%nat with (List.length base) by lia.
  assert (E : (List.length NPY_SUFFIX <=? List.length base + List.length NPY_SUFFIX)%nat = true)
    by (apply Nat.leb_le; lia).
  rewrite E. rewrite skipn_app, Nat.sub_diag, skipn_all. cbn [skipn app].
  rewrite list_eqb_refl. cbn [andb].
  rewrite firstn_app, Nat.sub_diag, firstn_all. cbn [firstn]. rewrite app_nil_r. reflexivity.
Qed.

(* the key npz::read returns for the member npz::write created is the name with at most one
   ".npy" suffix removed, and it is never empty *)
Theorem npz_name_roundtrip name member :
  npz_file_name name = Some member ->
  exists base, base <> [] /\ member = base ++ NPY_SUFFIX /\ npz_read_key member = Some base /\
               (name = base \/ name = base ++ NPY_SUFFIX).
Proof.
  unfold npz_file_name, npz_read_key.
  destruct (strip_suffix NPY_SUFFIX name) as [x|] eqn:E.
  - destruct x as [|c x]; [discriminate|]. intros H; inversion H; subst.
    exists (c :: x). split; [discriminate|]. split; [reflexivity|]. split; [exact (strip_suffix_app (c :: x))|].
    right. unfold strip_suffix in E.
    destruct ((List.length NPY_SUFFIX <=? List.length name)%nat &&
              list_eqb (skipn (List.length name - List.length NPY_SUFFIX) name) NPY_SUFFIX) eqn:E2; [|discriminate].
    injection E as E3. apply andb_true_iff in E2. destruct E2 as [_ E2].
    assert (Hs : skipn (List.length name - List.length NPY_SUFFIX) name = NPY_SUFFIX).
    { apply list_eqb_eq. exact E2. }
    change (List.length NPY_SUFFIX) with 4%nat in Hs.
    rewrite <- (firstn_skipn (List.length name - 4) name) at 1.
    rewrite E3, Hs. reflexivity.
  - destruct name as [|c x]; [discriminate|]. intros H; inversion H; subst.
    exists (c :: x). split; [discriminate|]. split; [reflexivity|]. split; [exact (strip_suffix_app (c :: x))|].
    left. reflexivity.
Qed.

Lemma strip_suffix_some name x : strip_suffix NPY_SUFFIX name = Some x -> name = x ++ NPY_SUFFIX.
Proof.
  unfold strip_suffix.
  destruct ((List.length NPY_SUFFIX <=? List.length name)%nat &&
            list_eqb (skipn (List.length name - List.length NPY_SUFFIX) name) NPY_SUFFIX) eqn:E2; [|discriminate].
  intros E. injection E as E3. apply andb_true_iff in E2. destruct E2 as [_ E2].
  apply list_eqb_eq in E2. change (List.length NPY_SUFFIX) with 4%nat in *.
  rewrite <- (firstn_skipn (List.length name - 4) name) at 1.
  rewrite E3, E2. reflexivity.
Qed.

Lemma spec_key_suffixed x : spec_key FNpz (x ++ NPY_SUFFIX) = x.
Proof.
  unfold spec_key. rewrite rev_app_distr. change (rev NPY_SUFFIX) with [121; 112; 110; 46]. cbn [app].
  change ((121 =? 121) && (112 =? 112) && (110 =? 110) && (46 =? 46)) with true. cbv iota. apply rev_involutive.
Qed.

Theorem npz_key_is_spec name member :
  npz_file_name name = Some member -> npz_read_key member = Some (spec_key FNpz name).
Proof.
  unfold npz_file_name, npz_read_key.
  destruct (strip_suffix NPY_SUFFIX name) as [x|] eqn:E.
  - apply strip_suffix_some in E. subst name.
    destruct x as [|c x]; [discriminate|]. intros H; inversion H; subst.
    rewrite spec_key_suffixed. exact (strip_suffix_app (c :: x)).
  - destruct name as [|c x]; [discriminate|]. intros H; inversion H; subst.
    pose proof (strip_suffix_app (c :: x)) as Hs. cbn [app] in Hs |- *. rewrite Hs. f_equal.
    unfold spec_key.
    destruct (rev (c :: x)) as [|a1 [|a2 [|a3 [|a4 r]]]] eqn:Er; try reflexivity.
    destruct ((a1 =? 121) && (a2 =? 112) && (a3 =? 110) && (a4 =? 46)) eqn:Eb; [|reflexivity].
    repeat (apply andb_true_iff in Eb; destruct Eb as [Eb ?]).
    apply N.eqb_eq in Eb, H0, H1, H2. subst.
    exfalso. assert (Hn : c :: x = rev r ++ NPY_SUFFIX).
    { rewrite <- (rev_involutive (c :: x)), Er. cbn [rev]. rewrite <- !app_assoc. reflexivity. }
    rewrite Hn, strip_suffix_app in E. discriminate.
Qed.

Theorem st_dtype_roundtrip d : st_dtype_of_name (st_name d) = Some d.
Proof. destruct d; reflexivity. Qed.

(* ------------------------------------------------------------ the reader's 4 GiB cap (known finding F34.1) *)
Theorem read_rejects_large dbg d shape h data :
  pm shape < two64 -> prodN shape * item_size d < two64 ->
  u32_max < prodN shape * item_size d ->
  build_header d shape = Ok h ->
  read dbg (h ++ data) = RErr ETooLarge.
Proof.
  intros Hpm Hb64 Hbig Hb.
  assert (Hall : Forall (fun x => x < two64) shape).
  { apply Forall_forall. intros x Hin. pose proof (pm_bound shape x Hin). lia. }
  unfold read. rewrite (read_header_written d shape h _ Hall Hb).
  cbn [h_dtype]. rewrite data_type_of_ddesc.
  assert (Hsc : size_check d shape = Err ETooLarge).
  { unfold size_check.
    assert (Hmm : pm (map (N.max 1) shape) = pm shape).
    { unfold pm. rewrite map_map. f_equal. apply map_ext. intros a. lia. }
    rewrite (checked_product_complete (map (N.max 1) shape) 1) by (rewrite Hmm; lia).
    rewrite (checked_product_complete shape 1) by lia.
    unfold checked_mul. rewrite N.mul_1_l.
    apply N.ltb_lt in Hb64. rewrite Hb64. apply N.ltb_lt in Hbig. rewrite Hbig. reflexivity. }
  unfold read_typed. cbn [h_shape]. rewrite Hsc. reflexivity.
Qed.

(* reflection of the executable oracle *)
Lemma outcome_eqb_eq x y : outcome_eqb x y = true -> x = y.
Proof.
  destruct x as [d s e|a| | |], y as [d' s' e'|c| | |]; cbn [outcome_eqb]; try discriminate; try reflexivity.
  - intros H. apply andb_true_iff in H. destruct H as [H He]. apply andb_true_iff in H. destruct H as [Hd Hs].
    apply list_eqb_eq in He, Hs. subst. destruct d, d'; try discriminate; reflexivity.
  - destruct a, c; cbn [err_eqb]; try discriminate; try reflexivity;
      intros H; apply N.eqb_eq in H; subst; reflexivity.
Qed.

Definition multi_ok (f : fmt) (entries : list (list N * (dtype * (list N * list N))))
           (wrote : bool) (rb : list (list N * outcome)) (ra : list outcome) : Prop :=
  wrote = true /\
  List.length rb = List.length entries /\
  (forall e, In e entries ->
     exists r, In r rb /\ fst r = spec_key f (fst e) /\ snd r = entry_outcome e) /\
  List.length ra = List.length entries /\
  (forall e o, In (e, o) (combine entries ra) -> o = entry_outcome e).

Lemma prop_ok_sound c : prop_ok c = true ->
  match c with
  | CRead _ _ impl => total impl
  | CRound _ f d shape elems _ aux_in aux_out impl =>
      match f with
      | FNpz => (spec_key FNpz aux_in = [] /\ exists e, impl = RErr e) \/
                (impl = ROk d shape elems /\ aux_out = Some (spec_key FNpz aux_in))
      | _ => impl = ROk d shape elems
      end
  | CBig _ d shape _ _ impl => exists e, impl = ROk d shape e
  | CReadOther _ _ cls => cls < 2
  | CMulti _ f entries wrote rb ra =>
      let keys := map (fun e => spec_key f (fst e)) entries in
      if existsb (fun k => list_eqb k []) keys || negb (distinctb keys)
      then f = FNpz -> wrote = false
      else multi_ok f entries wrote rb ra
  end.
Proof.
  destruct c as [dbg bytes impl|dbg f d shape elems written aux_in aux_out impl|dbg d shape hdr wl impl|dbg f cls
                 |dbg f entries wrote rb ra];
    cbn [prop_ok].
  - destruct impl; try discriminate; intros; exact I.
  - destruct f.
    + intros H. apply outcome_eqb_eq in H. exact H.
    + destruct (list_eqb (spec_key FNpz aux_in) []) eqn:E.
      * intros H. left. split; [apply list_eqb_eq; exact E|]. destruct impl; try discriminate. eauto.
      * intros H. right. apply andb_true_iff in H. destruct H as [H1 H2].
        apply outcome_eqb_eq in H1. split; [exact H1|].
        destruct aux_out as [k|]; cbn [opt_list_eqb] in H2; [|discriminate].
        apply list_eqb_eq in H2. subst. reflexivity.
    + intros H. apply outcome_eqb_eq in H. exact H.
  - destruct impl as [d' s' e'| | | |]; try discriminate.
    intros H. apply andb_true_iff in H. destruct H as [Hd Hs]. apply list_eqb_eq in Hs. subst.
    destruct d, d'; try discriminate; eauto.
  - intros H. apply N.ltb_lt. exact H.
  - cbv zeta.
    destruct (existsb (fun k => list_eqb k []) (map (fun e => spec_key f (fst e)) entries)
              || negb (distinctb (map (fun e => spec_key f (fst e)) entries))).
    + destruct f; try discriminate.
      intros H _. apply negb_true_iff in H. exact H.
    + intros H. repeat (apply andb_true_iff in H; destruct H as [H ?]).
      unfold multi_ok. split; [exact H|].
      split; [apply Nat.eqb_eq; assumption|].
      split.
      { intros e Hin. rewrite forallb_forall in H2. specialize (H2 e Hin).
        apply existsb_exists in H2. destruct H2 as (r & Hr & Hm).
        apply andb_true_iff in Hm. destruct Hm as [Hk Ho].
        exists r. split; [exact Hr|]. split; [apply list_eqb_eq; exact Hk|apply outcome_eqb_eq; exact Ho]. }
      split; [apply Nat.eqb_eq; assumption|].
      intros e o Hin. rewrite forallb_forall in H0. specialize (H0 (e, o) Hin).
      apply outcome_eqb_eq in H0. exact H0.
Qed.
