(* C13/C14 -- reflection lemmas for the executable oracles of InPlace_cases.v and the
   instantiation of the binary theorems at the concrete integer operators. *)
From RV Require Import Prelude.
From Coq Require Import String.
From Ops Require Import InPlace InPlace_proofs InPlace_cases.
Open Scope N_scope.

Lemma outcome_eqb_eq a b : outcome_eqb a b = true <-> a = b.
Proof. unfold outcome_eqb. destruct (outcome_eq_dec a b); split; congruence. Qed.

Lemma bres_eqb_eq a b : bres_eqb a b = true <-> a = b.
Proof. unfold bres_eqb. destruct (bres_eq_dec a b); split; congruence. Qed.

(* prop_ok on a differential case says exactly: every alternative execution returned the
   reference outputs *)
Theorem prop_ok_diff op d vs alts :
  prop_ok (Diff op d (OOk vs) alts) = true <-> forall n o, In (n, o) alts -> o = OOk vs.
Proof.
  cbn [prop_ok]. rewrite forallb_forall. split.
  - intros H n o Hi. apply outcome_eqb_eq. exact (H (n, o) Hi).
  - intros H [n o] Hi. apply outcome_eqb_eq. cbn [snd]. exact (H n o Hi).
Qed.

Theorem layout_ok_diff op d base alts :
  layout_ok (Diff op d base alts) = true <-> forall n o, In (n, o) alts -> o = base.
Proof.
  cbn [layout_ok]. rewrite forallb_forall. split.
  - intros H n o Hi. apply outcome_eqb_eq. exact (H (n, o) Hi).
  - intros H [n o] Hi. apply outcome_eqb_eq. cbn [snd]. exact (H n o Hi).
Qed.

Theorem prop_ok_bin o sa sb xa xb cbt s v alts :
  prop_ok (Bin o sa sb xa xb cbt (BOk s v) alts) = true <-> forall p r, In (p, r) alts -> r = BOk s v.
Proof.
  cbn [prop_ok]. rewrite forallb_forall. split.
  - intros H p r Hi. apply bres_eqb_eq. exact (H (p, r) Hi).
  - intros H [p r] Hi. apply bres_eqb_eq. cbn [snd]. exact (H p r Hi).
Qed.

Theorem agree_bin o sa sb xa xb cbt normal alts :
  agree (Bin o sa sb xa xb cbt normal alts) = true <->
  cbt = can_run_in_place sa sb /\
  normal = model_normal o sa sb xa xb /\
  forall p r, In (p, r) alts -> r = model_in_place o p sa sb xa xb.
Proof.
  cbn [agree]. rewrite !andb_true_iff, forallb_forall, bres_eqb_eq, Bool.eqb_true_iff.
  split; intros [[H0 H1] H2] || intros (H0 & H1 & H2); repeat split; try assumption.
  - intros p r Hi. apply bres_eqb_eq. exact (H2 (p, r) Hi).
  - intros [p r] Hi. apply bres_eqb_eq. cbn [fst snd]. exact (H2 p r Hi).
Qed.

Lemma zop_comm o : commutative o = true -> forall x y, zop o x y = zop o y x.
Proof. destruct o; cbn; intros H x y; try discriminate; lia. Qed.

(* the model of Add / Sub / Mul: running in place on the first operand equals the normal
   run, and for the commutative ones so does running in place on the second operand *)
Theorem model_in_place_eq_normal o sa sb xa xb :
  wf sa xa -> wf sb xb ->
  model_in_place o 0 sa sb xa xb = model_normal o sa sb xa xb /\
  (commutative o = true -> model_in_place o 1 sa sb xa xb = model_normal o sa sb xa xb).
Proof.
  intros Ha Hb. unfold model_in_place, model_normal. destruct (commutative o) eqn:Ec.
  - pose proof (zop_comm o Ec) as Hf.
    destruct (commuted_eq (zop o) Hf true true true true sa sb xa xb Ha Hb) as [H1 H0].
    split; [exact H0|]. intros _. exact H1.
  - split; [|discriminate]. change (0 =? 0) with true. cbn iota.
    apply (binary_in_place_eq (zop o) true true true true); assumption.
Qed.
