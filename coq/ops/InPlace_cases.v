(* C13/C14 -- the correspondence cases printed by harness/ops (c13, c14) and their
   evaluation: [agree] (model = implementation, for the modelled binary operators),
   [prop_ok] (the implementation's own outcomes satisfy the property), [show]. *)
From RV Require Import Prelude.
From Coq Require Import String.
From Ops Require Import InPlace.
Open Scope N_scope.

Inductive dtype := F32 | I32 | I8 | U8.

(* an operator output: a tensor (element type, shape, elements as bit patterns / integer
   values, in logical row-major order) or a sequence of tensors *)
Inductive val :=
| VT (d : dtype) (shape : list N) (bits : list Z)
| VS (d : dtype) (items : list (list N * list Z)).

Inductive outcome := OOk (vs : list val) | OErr (kind : string) | OPanic.

Definition dtype_eq_dec (a b : dtype) : {a = b} + {a <> b}.
Proof. decide equality. Defined.
Definition val_eq_dec (a b : val) : {a = b} + {a <> b}.
Proof.
  decide equality; try apply dtype_eq_dec;
    repeat (apply list_eq_dec || apply N.eq_dec || apply Z.eq_dec || decide equality).
Defined.
Definition outcome_eq_dec (a b : outcome) : {a = b} + {a <> b}.
Proof. decide equality; [apply (list_eq_dec val_eq_dec)|apply string_dec]. Defined.
Definition outcome_eqb (a b : outcome) : bool := if outcome_eq_dec a b then true else false.

Definition bres_eq_dec (a b : bres Z) : {a = b} + {a <> b}.
Proof. decide equality; [apply (list_eq_dec Z.eq_dec)|apply (list_eq_dec N.eq_dec)]. Defined.
Definition bres_eqb (a b : bres Z) : bool := if bres_eq_dec a b then true else false.

Inductive binop := BAdd | BSub | BMul.
Definition zop (o : binop) : Z -> Z -> Z :=
  match o with BAdd => Z.add | BSub => Z.sub | BMul => Z.mul end.
Definition commutative (o : binop) : bool := match o with BSub => false | _ => true end.

Inductive case :=
(* two-run differential: [base] is the reference run (C13: Operator::run on contiguous
   inputs; C14: the same), [alts] the alternative executions of the same logical inputs
   (C13: run_in_place on owned copies / swapped operands; C14: other memory layouts) *)
| Diff (op desc : string) (base : outcome) (alts : list (string * outcome))
(* Add/Sub/Mul on integer values: shapes, elements, the normal result and the in-place
   results (position of the owned operand, result) -- compared with the model *)
| Bin (op : binop) (sa sb : list N) (xa xb : list Z)
      (cbt : bool)   (* rten_tensor's answer to b.can_broadcast_to(a.shape()) *)
      (normal : bres Z) (alts : list (N * bres Z)).

(* what the model computes for a Bin case: the operator's normal function, and what
   run_in_place returns when the operand at [pos] is the owned one *)
Definition model_normal (o : binop) (sa sb : list N) (xa xb : list Z) : bres Z :=
  if commutative o then binary_commutative_op (zop o) true true sa sb xa xb
  else binary_op (zop o) true true sa sb xa xb.

Definition model_in_place (o : binop) (pos : N) (sa sb : list N) (xa xb : list Z) : bres Z :=
  let normal := if commutative o then binary_commutative_op (zop o) else binary_op (zop o) in
  if pos =? 0 then run_in_place (zop o) normal true true sa sb xa xb
  else run_in_place (zop o) normal true true sb sa xb xa.

Definition agree (c : case) : bool :=
  match c with
  | Diff _ _ _ _ => true
  | Bin o sa sb xa xb cbt normal alts =>
      Bool.eqb cbt (can_run_in_place sa sb) &&
      bres_eqb normal (model_normal o sa sb xa xb) &&
      forallb (fun a => bres_eqb (snd a) (model_in_place o (fst a) sa sb xa xb)) alts
  end.

(* the property: if the reference run succeeds, every alternative run returns the
   identical outputs (shape, type, bits) *)
Definition prop_ok (c : case) : bool :=
  match c with
  | Diff _ _ (OOk vs) alts => forallb (fun a => outcome_eqb (snd a) (OOk vs)) alts
  | Diff _ _ _ _ => true
  | Bin _ _ _ _ _ _ (BOk s v) alts => forallb (fun a => bres_eqb (snd a) (BOk s v)) alts
  | Bin _ _ _ _ _ _ _ _ => true
  end.

(* C14 is symmetric in the representations: every run must have the SAME outcome as the
   contiguous run, including when that run fails (an error or a panic on the contiguous
   layout only is a layout dependence too) *)
Definition layout_ok (c : case) : bool :=
  match c with
  | Diff _ _ base alts => forallb (fun a => outcome_eqb (snd a) base) alts
  | _ => true
  end.

(* names of the alternatives that differ from the reference run + the model's answer *)
Definition show (c : case) : list string * option (bres Z) :=
  match c with
  | Diff _ _ base alts =>
      (map fst (filter (fun a => negb (outcome_eqb (snd a) base)) alts), None)
  | Bin o sa sb xa xb _ _ _ => ([], Some (model_normal o sa sb xa xb))
  end.

(* ---- closeness in units of the last place (used only to CLASSIFY a failure of [prop_ok] as
   the recorded known finding about attention's float summation order; never to accept it) ---- *)
(* order-preserving integer key of an f32 bit pattern (sign-magnitude -> two's complement) *)
Definition f32_key (b : Z) : Z := if (b <? 2147483648)%Z then b else (2147483648 - b)%Z.

Definition elem_close (k : Z) (d : dtype) (x y : Z) : bool :=
  match d with
  | F32 => (Z.abs (f32_key x - f32_key y) <=? k)%Z
  | _ => (x =? y)%Z
  end.

Fixpoint all2Z (p : Z -> Z -> bool) (a b : list Z) : bool :=
  match a, b with
  | [], [] => true
  | x :: a', y :: b' => p x y && all2Z p a' b'
  | _, _ => false
  end.

Definition val_close (k : Z) (a b : val) : bool :=
  match a, b with
  | VT d s x, VT d' s' y =>
      (if dtype_eq_dec d d' then true else false) && list_eqb s s' && all2Z (elem_close k d) x y
  | _, _ => if val_eq_dec a b then true else false
  end.

Fixpoint all2V (p : val -> val -> bool) (a b : list val) : bool :=
  match a, b with
  | [], [] => true
  | x :: a', y :: b' => p x y && all2V p a' b'
  | _, _ => false
  end.

Definition outcome_close (k : Z) (a b : outcome) : bool :=
  match a, b with
  | OOk x, OOk y => all2V (val_close k) x y
  | _, _ => outcome_eqb a b
  end.

(* every alternative execution returned the reference outputs up to [k] ulps per f32 element
   (same shapes, same dtypes, integer outputs identical) *)
Definition close_ok (k : Z) (c : case) : bool :=
  match c with
  | Diff _ _ (OOk vs) alts => forallb (fun a => outcome_close k (snd a) (OOk vs)) alts
  | _ => true
  end.
