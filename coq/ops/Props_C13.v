(* C13 -- In-place and commuted operator execution match normal execution.
   Only statements; every proof is `exact <lemma>`.

   Scope: the decision logic of src/ops/binary_elementwise.rs (which path runs, on which
   shape, with which cycle/repeat counts) and the two algorithms built on it are modelled
   and proved equal for EVERY kernel f, every shape and every contiguity of the operands.
   The kernels themselves (and every other in-place-capable operator) are exercised by the
   two-run differential of checks/C13.py, not proved. *)
From RV Require Import Prelude.
From Coq Require Import String.
From Ops Require Import InPlace InPlace_proofs InPlace_spec InPlace_cases InPlace_oracle.
Open Scope N_scope.

(* (1) the in-place decision: whenever `can_run_binary_op_in_place(a, b)` holds, the
       broadcast result shape is a's own shape, so writing into a's buffer is shape-correct;
       and conversely the fallback is taken only when the result shape differs from a's *)
Theorem C13_in_place_shape_ok : forall a b,
  can_broadcast_to b a = true -> broadcast_shapes a b = Some a.
Proof. exact in_place_shape_ok. Qed.

Theorem C13_in_place_decision_exact : forall a b,
  can_run_in_place a b = true <-> broadcast_shapes a b = Some a.
Proof.
  intros a b. split; [exact (in_place_shape_ok a b)|exact (broadcast_self_can_broadcast a b)].
Qed.

(* (2) the cycles/repeats fast path: whenever `fast_broadcast_cycles_repeats(from, to)`
       answers Some((c, r)), cycling c times over every element repeated r times IS the
       broadcast of the contiguous operand (numpy.broadcast_to(..).ravel()) *)
Theorem C13_fast_broadcast_sound : forall (A : Type) from to c r (xs : list A),
  fast_broadcast from to = FbSome c r ->
  can_broadcast_to from to = true ->
  lenN xs = prodN from ->
  broadcast_flat from to xs = cycle c (repeat_each r xs).
Proof. exact @fast_broadcast_sound. Qed.

(* (2') what "broadcast" means in (2), at the level of indices: element [idx] of
       broadcast_flat is the source element whose index is [idx] with 0 along every broadcast
       dimension (the definition of numpy.broadcast_to), for an operand of any lower rank *)
Theorem C13_broadcast_flat_index : forall (A : Type) from to (xs : list A),
  can_broadcast_to from to = true -> lenN xs = prodN from ->
  forall idx, valid_idx to idx = true ->
  nth_error (broadcast_flat from to xs) (N.to_nat (lin to idx))
  = nth_error xs (N.to_nat (lin (pad_left (List.length to) from) (bsrc (pad_left (List.length to) from) idx))).
Proof. exact @broadcast_flat_index. Qed.

(* (3) first sentence of the property for the elementwise binary operators: for every
       kernel f, all shapes, all element lists, and any contiguity of either operand in
       either run, run_in_place on the owned first operand returns exactly what the normal
       run returns (the tensor, or the same shape error) *)
Theorem C13_binary_in_place_eq : forall (A : Type) (f : A -> A -> A) ca cb ca' cb' sa sb (xa xb : list A),
  wf sa xa -> wf sb xb ->
  run_in_place f (binary_op f) ca' cb' sa sb xa xb = binary_op f ca cb sa sb xa xb.
Proof. exact @binary_in_place_eq. Qed.

(* (4) second sentence: for a commutative kernel (Add, Mul; their normal function is
       binary_commutative_op) the executor may hand EITHER operand over as the owned one *)
Theorem C13_commuted_eq : forall (A : Type) (f : A -> A -> A),
  (forall x y, f x y = f y x) ->
  forall ca cb ca' cb' sa sb (xa xb : list A),
  wf sa xa -> wf sb xb ->
  run_in_place f (binary_commutative_op f) cb' ca' sb sa xb xa = binary_commutative_op f ca cb sa sb xa xb /\
  run_in_place f (binary_commutative_op f) ca' cb' sa sb xa xb = binary_commutative_op f ca cb sa sb xa xb.
Proof. exact @commuted_eq. Qed.

(* (5) "succeeds": none of the assert!s on the two paths can fire *)
Theorem C13_binary_never_panics : forall (A : Type) (f : A -> A -> A) ca cb sa sb (xa xb : list A),
  wf sa xa -> wf sb xb ->
  binary_op f ca cb sa sb xa xb <> BPanic /\
  run_in_place f (binary_op f) ca cb sa sb xa xb <> BPanic.
Proof. exact @binary_never_panics. Qed.

(* (6) the concrete model the correspondence check evaluates (Add / Sub / Mul over Z) *)
Theorem C13_model_in_place_eq_normal : forall o sa sb xa xb,
  wf sa xa -> wf sb xb ->
  model_in_place o 0 sa sb xa xb = model_normal o sa sb xa xb /\
  (commutative o = true -> model_in_place o 1 sa sb xa xb = model_normal o sa sb xa xb).
Proof. exact model_in_place_eq_normal. Qed.

(* (7) the executable oracle of the check is the property: all alternative executions
       returned exactly the outputs of the normal run *)
Theorem C13_oracle_reflects : forall op d vs alts,
  prop_ok (Diff op d (OOk vs) alts) = true <-> forall n o, In (n, o) alts -> o = OOk vs.
Proof. exact prop_ok_diff. Qed.

(* non-vacuity: the fast path with leading cycles and trailing repeats, a sandwiched
   broadcast dimension that must use the slow path, an operand that cannot be updated in
   place because it is the smaller one, and a concrete in-place run *)
Example C13_nonvacuous :
  fast_broadcast [1; 2; 1] [3; 2; 4] = FbSome 3 4 /\
  fast_broadcast [2; 1; 2] [2; 3; 2] = FbNone /\
  can_run_in_place [3] [2; 3] = false /\ broadcast_shapes [3] [2; 3] = Some [2; 3] /\
  run_in_place Z.add (binary_op Z.add) true true [2; 2] [2] [1; 2; 3; 4]%Z [10; 20]%Z
    = BOk [2; 2] [11; 22; 13; 24]%Z.
Proof. repeat split; vm_compute; reflexivity. Qed.

(* Known finding F61 (recorded in known_findings.json; not covered by the theorems above, which
   are about the elementwise binary operators): the attention operators accumulate
   softmax(QK^T)*V with a GEMM whose f32 summation order depends on the strides of the KV
   cache, so an in-place append to a strided owned cache can change the last bits of the
   output.  The witness is the implementation's observed outcome for input
   `D|Attention|80840259284538`: it fails the exact oracle but is within 2 ulp. *)
Open Scope string_scope.
Definition C13_attention_witness : case :=
  
    Diff "Attention" "Attention [] inputs: f32[1, 2, 1, 3] f32[1, 2, 2, 3] f32[1, 2, 2, 3] - f32[1, 2, 2, 3] f32[1, 2, 2, 3]" (OOk [(VT F32 [1
    ;2;1;3]%N [1073019664;1065508445;3228078649;1034303174;1053160264;3219558498]%Z);(VT F32 [1;2;4;3]%N [0;
    3221225472;1065353216;0;3212836864;1077936128;1077936128;0;3212836864;1077936128;1065353216;1065353216;
    1073741824;3212836864;1073741824;3221225472;3225419776;1073741824;0;3221225472;3229614080;1073741824;
    3212836864;3225419776]%Z);(VT F32 [1;2;4;3]%N [0;1065353216;1077936128;1073741824;1065353216;3229614080;
    1073741824;1065353216;3229614080;1082130432;1077936128;3229614080;0;1082130432;1073741824;0;1073741824;
    1073741824;0;0;3225419776;1073741824;3221225472;
    3221225472]%Z)]) [("inplace@[4, 5]:exact:", OOk [(VT F32 [1;2;1;3]%N [1073019664;1065508445;3228078649;
    1034303174;1053160264;3219558498]%Z);(VT F32 [1;2;4;3]%N [0;3221225472;1065353216;0;3212836864;1077936128;
    1077936128;0;3212836864;1077936128;1065353216;1065353216;1073741824;3212836864;1073741824;3221225472;
    3225419776;1073741824;0;3221225472;3229614080;1073741824;3212836864;3225419776]%Z);(VT F32 [1;2;4;3]%N [0;
    1065353216;1077936128;1073741824;1065353216;3229614080;1073741824;1065353216;3229614080;1082130432;
    1077936128;3229614080;0;1082130432;1073741824;0;1073741824;1073741824;0;0;3225419776;1073741824;3221225472
    ;3221225472]%Z)]);("inplace@[4, 5]:sparevec:2=stepped", OOk [(VT F32 [1;2;1;3]%N [1073019664;1065508445;
    3228078649;1034303174;1053160264;3219558498]%Z);(VT F32 [1;2;4;3]%N [0;3221225472;1065353216;0;3212836864;
    1077936128;1077936128;0;3212836864;1077936128;1065353216;1065353216;1073741824;3212836864;1073741824;
    3221225472;3225419776;1073741824;0;3221225472;3229614080;1073741824;3212836864;3225419776]%Z);(VT F32 [1;2
    ;4;3]%N [0;1065353216;1077936128;1073741824;1065353216;3229614080;1073741824;1065353216;3229614080;
    1082130432;1077936128;3229614080;0;1082130432;1073741824;0;1073741824;1073741824;0;0;3225419776;1073741824
    ;3221225472;3221225472]%Z)]);("inplace@[4, 5]:withcap:0=permuted,1=permuted:reused", OOk [(VT F32 [1;2;1;
    3]%N [1073019664;1065508445;3228078649;1034303174;1053160264;3219558498]%Z);(VT F32 [1;2;4;3]%N [0;
    3221225472;1065353216;0;3212836864;1077936128;1077936128;0;3212836864;1077936128;1065353216;1065353216;
    1073741824;3212836864;1073741824;3221225472;3225419776;1073741824;0;3221225472;3229614080;1073741824;
    3212836864;3225419776]%Z);(VT F32 [1;2;4;3]%N [0;1065353216;1077936128;1073741824;1065353216;3229614080;
    1073741824;1065353216;3229614080;1082130432;1077936128;3229614080;0;1082130432;1073741824;0;1073741824;
    1073741824;0;0;3225419776;1073741824;3221225472;3221225472]%Z)]);
    ("inplace@[4, 5]:strided::reused", OOk [(VT F32 [1;2;1;3]%N [1073019664;1065508445;3228078649;1034303174;
    1053160264;3219558499]%Z);(VT F32 [1;2;4;3]%N [0;3221225472;1065353216;0;3212836864;1077936128;1077936128;
    0;3212836864;1077936128;1065353216;1065353216;1073741824;3212836864;1073741824;3221225472;3225419776;
    1073741824;0;3221225472;3229614080;1073741824;3212836864;3225419776]%Z);(VT F32 [1;2;4;3]%N [0;1065353216;
    1077936128;1073741824;1065353216;3229614080;1073741824;1065353216;3229614080;1082130432;1077936128;
    3229614080;0;1082130432;1073741824;0;1073741824;1073741824;0;0;3225419776;1073741824;3221225472;
    3221225472]%Z)])].
Close Scope string_scope.

Example C13_attention_rounding_witness :
  exists c, prop_ok c = false /\ close_ok 2 c = true.
Proof. exists C13_attention_witness. split; vm_compute; reflexivity. Qed.
