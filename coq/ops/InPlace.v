(* C13/C14 -- model of the broadcasting decision logic and of the normal / in-place
   elementwise binary algorithm of src/ops/binary_elementwise.rs.

     broadcast_shapes                 broadcast_shapes
     can_broadcast_to                 rten_tensor::Layout::can_broadcast_to
     can_run_in_place                 can_run_binary_op_in_place
     fast_broadcast                   fast_broadcast_cycles_repeats
     binary_op / binary_commutative   binary_op / binary_commutative_op
     binary_in_place / run_in_place   binary_op_in_place / run_typed_op_in_place!

   Tensors are (shape, row-major list of logical elements).  Whether a tensor's storage
   is contiguous (`data()` is `Some`) is a boolean parameter of the algorithms: it only
   selects the kernel (`apply_fast` over slices vs. `apply_indexed` over views), and the
   theorems say the result does not depend on it.  Executable definitions only. *)
From RV Require Import Prelude.
Open Scope N_scope.

(* ---------------------------------------------------------------- shapes *)
Fixpoint prodN (l : list N) : N := match l with [] => 1 | x :: r => x * prodN r end.

Fixpoint list_eqb (a b : list N) : bool :=
  match a, b with
  | [], [] => true
  | x :: a', y :: b' => (x =? y) && list_eqb a' b'
  | _, _ => false
  end.

(* implicit left-padding with 1s *)
Definition pad_left (n : nat) (l : list N) : list N := repeat 1 (n - length l)%nat ++ l.

Definition bdim (x y : N) : option N :=
  if x =? y then Some x else if x =? 1 then Some y else if y =? 1 then Some x else None.

Fixpoint zip_bdim (a b : list N) : option (list N) :=
  match a, b with
  | [], [] => Some []
  | x :: a', y :: b' =>
      match bdim x y, zip_bdim a' b' with
      | Some d, Some r => Some (d :: r)
      | _, _ => None
      end
  | _, _ => None
  end.

(* broadcast_shapes(a, b): pad both to the longer rank, match dimension-wise *)
Definition broadcast_shapes (a b : list N) : option (list N) :=
  let n := Nat.max (length a) (length b) in
  zip_bdim (pad_left n a) (pad_left n b).

Fixpoint all2 (p : N -> N -> bool) (a b : list N) : bool :=
  match a, b with
  | [], [] => true
  | x :: a', y :: b' => p x y && all2 p a' b'
  | _, _ => false
  end.

(* Layout::can_broadcast_to(shape, target) *)
Definition can_broadcast_to (shape target : list N) : bool :=
  if (length target <? length shape)%nat then false
  else all2 (fun a b => (a =? b) || (a =? 1)) shape (skipn (length target - length shape) target).

(* can_run_binary_op_in_place(a, b) *)
Definition can_run_in_place (a_shape b_shape : list N) : bool := can_broadcast_to b_shape a_shape.

(* ------------------------------------------------- fast_broadcast_cycles_repeats *)
Inductive fbres := FbPanic | FbNone | FbSome (cycles repeats : N).

Definition fbres_eqb (a b : fbres) : bool :=
  match a, b with
  | FbPanic, FbPanic | FbNone, FbNone => true
  | FbSome c r, FbSome c' r' => (c =? c') && (r =? r')
  | _, _ => false
  end.

(* a dimension the two scanning loops step over: from == 1 and (to == 1 or to > 1) *)
Definition fb_skip (p : N * N) : bool := (fst p =? 1) && ((snd p =? 1) || (1 <? snd p)).

Fixpoint take_while {A} (p : A -> bool) (l : list A) : list A :=
  match l with [] => [] | x :: r => if p x then x :: take_while p r else [] end.

Definition prod_to (ps : list (N * N)) : N := prodN (map snd ps).

Definition fast_broadcast (from to : list N) : fbres :=
  if list_eqb from to then FbSome 1 1
  else if prodN from =? 1 then FbSome 1 (prodN to)
  else if (length to <? length from)%nat then FbPanic      (* assert!(to_shape.len() >= from_shape.len()) *)
  else
    let pairs := combine (pad_left (length to) from) to in
    let lead := take_while fb_skip pairs in
    let trail := take_while fb_skip (rev pairs) in
    let nlead := length lead in
    let ntrail := length trail in
    (* for i in (leading)..(len - trailing): an empty range if leading >= len - trailing *)
    let mid := firstn (length to - ntrail - nlead) (skipn nlead pairs) in
    if forallb (fun p => fst p =? snd p) mid then FbSome (prod_to lead) (prod_to trail)
    else FbNone.

(* ------------------------------------------------------------ element lists *)
Section Elems.
  Context {A : Type}.

  Definition cycle (c : N) (l : list A) : list A := concat (repeat l (N.to_nat c)).
  Definition repeat_each (r : N) (l : list A) : list A := flat_map (fun x => repeat x (N.to_nat r)) l.

  (* split [l] into [n] consecutive chunks of [k] elements *)
  Fixpoint chunks (k : nat) (n : nat) (l : list A) : list (list A) :=
    match n with
    | O => []
    | S n' => firstn k l :: chunks k n' (skipn k l)
    end.

  (* numpy.broadcast_to(x.reshape(from), to).ravel() for shapes of equal rank, [from]
     already left-padded: a dimension of size 1 is repeated, any other is traversed *)
  Fixpoint bflat (from to : list N) (xs : list A) : list A :=
    match from, to with
    | f :: from', t :: to' =>
        if f =? 1 then concat (repeat (bflat from' to' xs) (N.to_nat t))
        else flat_map (bflat from' to') (chunks (N.to_nat (prodN from')) (N.to_nat f) xs)
    | _, _ => xs
    end.

  (* broadcast the elements of a tensor of shape [from] to shape [to] (rank from <= rank to) *)
  Definition broadcast_flat (from to : list N) (xs : list A) : list A :=
    bflat (pad_left (length to) from) to xs.
End Elems.

(* ---- index-level reading of [bflat] (specification side; see InPlace_spec.v) ---- *)
(* row-major linear position of an index *)
Fixpoint lin (shape idx : list N) : N :=
  match shape, idx with
  | _ :: r, i :: ir => i * prodN r + lin r ir
  | _, _ => 0
  end.

Fixpoint valid_idx (shape idx : list N) : bool :=
  match shape, idx with
  | [], [] => true
  | n :: r, i :: ir => (i <? n) && valid_idx r ir
  | _, _ => false
  end.

(* index of the source element of a broadcast: 0 along the broadcast dimensions *)
Fixpoint bsrc (from idx : list N) : list N :=
  match from, idx with
  | f :: r, i :: ir => (if f =? 1 then 0 else i) :: bsrc r ir
  | _, _ => []
  end.

Fixpoint map2 {A B C} (f : A -> B -> C) (l : list A) (m : list B) : list C :=
  match l, m with
  | x :: l', y :: m' => f x y :: map2 f l' m'
  | _, _ => []
  end.

Definition lenN {A} (l : list A) : N := N.of_nat (length l).

(* -------------------------------------------------- the binary algorithms *)
Inductive bres (A : Type) :=
| BOk (shape : list N) (elems : list A)
| BErr            (* OpError::IncompatibleInputShapes *)
| BPanic.         (* a failed assert! *)
Arguments BOk {A}. Arguments BErr {A}. Arguments BPanic {A}.

Section Binary.
  Context {A : Type} (f : A -> A -> A).

  (* the reference meaning of an elementwise binary operator *)
  Definition binary_spec (sa sb : list N) (xa xb : list A) : bres A :=
    match broadcast_shapes sa sb with
    | None => BErr
    | Some out => BOk out (map2 f (broadcast_flat sa out xa) (broadcast_flat sb out xb))
    end.

  (* binary_op(pool, a, b, op): ca / cb say whether a.data() / b.data() is Some *)
  Definition binary_op (ca cb : bool) (sa sb : list N) (xa xb : list A) : bres A :=
    match broadcast_shapes sa sb with
    | None => BErr
    | Some out =>
        let general := BOk out (map2 f (broadcast_flat sa out xa) (broadcast_flat sb out xb)) in
        if list_eqb sa out && ca && cb then
          match fast_broadcast sb sa with
          | FbPanic => BPanic
          | FbNone => general
          | FbSome c r =>
              (* assert!(cycles * b_data.len() * repeats == a.len()) *)
              if c * lenN xb * r =? lenN xa
              then BOk out (map2 f xa (cycle c (repeat_each r xb)))
              else BPanic
          end
        else general
    end.

  (* binary_commutative_op: the larger operand becomes the LHS; the kernel is not swapped *)
  Definition binary_commutative_op (ca cb : bool) (sa sb : list N) (xa xb : list A) : bres A :=
    if lenN xa <? lenN xb then binary_op cb ca sb sa xb xa else binary_op ca cb sa sb xa xb.

  (* binary_op_in_place(a, b, op); requires can_broadcast_to sb sa *)
  Definition binary_op_in_place (ca cb : bool) (sa sb : list N) (xa xb : list A) : bres A :=
    let general := BOk sa (map2 f xa (broadcast_flat sb sa xb)) in
    if cb then
      match fast_broadcast sb sa with
      | FbPanic => BPanic
      | FbNone => general
      | FbSome c r =>
          if ca then
            (* assert!(cycles * b.len() * repeats == a.len()) *)
            if c * lenN xb * r =? lenN xa
            then BOk sa (map2 f xa (cycle c (repeat_each r xb)))
            else BPanic
          else general
      end
    else general.

  (* run_typed_op_in_place!: [a] is the owned in-place input, [b] the other operand;
     [normal] is the operator's non-in-place function used as fallback *)
  Definition run_in_place (normal : bool -> bool -> list N -> list N -> list A -> list A -> bres A)
             (ca cb : bool) (sa sb : list N) (xa xb : list A) : bres A :=
    if can_run_in_place sa sb then binary_op_in_place ca cb sa sb xa xb
    else normal ca cb sa sb xa xb.
End Binary.

(* well-formed tensor: as many elements as the shape says *)
Definition wf {A} (s : list N) (xs : list A) : Prop := lenN xs = prodN s.
