(* C14 -- Operator results do not depend on input memory layout.
   Only statements; every proof is `exact <lemma>` (or a one-line instantiation).

   Honest scope: partial(kernel fast paths sampled).  In the model an operator is a
   function of the LOGICAL tensor a view denotes, so layout independence holds by
   construction (C14_function_of_denotation); what is proved beyond that is (a) which logical
   tensor a permuted / sliced (stepped) / broadcast view denotes (imported from the layout
   group, C09), and (b) for the one family of kernels whose layout-specific fast path is
   modelled -- the elementwise binary operators -- that taking the contiguous cycles/repeats
   fast path or the strided indexed path gives the same result.  Every other operator's
   layout-specific code is exercised by the differential of checks/C14.py only. *)
From RV Require Import Prelude.
From Tensor Require Import Overlap.
From LayoutOps Require Import ArrayModel LayoutOps Denote_proofs Perm_proofs Gather_proofs Bcast_proofs.
From Ops Require InPlace InPlace_proofs InPlace_cases InPlace_oracle.
Open Scope N_scope.

(* (1) an operator applied to views is, in the model, its logical function applied to the
       denoted tensors: two representations of the same logical tensor give the same result *)
Definition on_view {A R} (f : tensor A -> R) (store : list A) (v : view) : option R :=
  option_map f (denote store v).

Theorem C14_function_of_denotation : forall (A R : Type) (f : tensor A -> R) s v s' v',
  denote s v = denote s' v' -> on_view f s v = on_view f s' v'.
Proof. intros A R f s v s' v' H. unfold on_view. now rewrite H. Qed.

(* (2) what the alternative representations denote: permuting a view permutes the logical
       tensor, slicing (with steps) selects the reference slice, broadcasting is
       numpy.broadcast_to -- whatever the strides/offset of the source view *)
Theorem C14_permuted_view_denotes : forall (A : Type) (s : list A) v p v' t,
  denote s v = Some t -> permuted v p = Ok v' -> denote s v' = ref_permute t p.
Proof. exact @permuted_denotes. Qed.

Theorem C14_sliced_view_denotes : forall (A : Type) (s : list A) v items v' t,
  denote s v = Some t -> slice false v items = Ok v' -> denote s v' = ref_slice t items.
Proof. exact @slice_denotes. Qed.

Theorem C14_broadcast_view_denotes : forall (A : Type) (s : list A) v target v' t,
  denote s v = Some t -> broadcast v target = Ok v' -> denote s v' = ref_broadcast t target.
Proof. exact @broadcast_denotes. Qed.

(* (3) a freshly allocated contiguous tensor denotes itself: the reference representation *)
Theorem C14_contiguous_denotes_itself : forall (A : Type) (t : tensor A),
  wf_tensor t -> denote (t_elems t) (mkV 0 (contiguous_dims (t_shape t))) = Some t.
Proof. exact @denote_fresh. Qed.

(* (4) the modelled kernel family: binary_op picks the contiguous fast path only when both
       operands are contiguous; the result is the same for every combination of flags *)
Theorem C14_binary_op_layout_independent :
  forall (A : Type) (f : A -> A -> A) ca cb ca' cb' sa sb (xa xb : list A),
  InPlace.wf sa xa -> InPlace.wf sb xb ->
  InPlace.binary_op f ca cb sa sb xa xb = InPlace.binary_op f ca' cb' sa sb xa xb.
Proof. exact @InPlace_proofs.binary_op_layout_independent. Qed.

Theorem C14_fast_broadcast_sound : forall (A : Type) from to c r (xs : list A),
  InPlace.fast_broadcast from to = InPlace.FbSome c r ->
  InPlace.can_broadcast_to from to = true ->
  InPlace.lenN xs = InPlace.prodN from ->
  InPlace.broadcast_flat from to xs = InPlace.cycle c (InPlace.repeat_each r xs).
Proof. exact @InPlace_proofs.fast_broadcast_sound. Qed.

(* (5) the executable oracle of the check is the property *)
Theorem C14_oracle_reflects : forall op d base alts,
  InPlace_cases.layout_ok (InPlace_cases.Diff op d base alts) = true <->
  forall n o, In (n, o) alts -> o = base.
Proof. exact InPlace_oracle.layout_ok_diff. Qed.

(* non-vacuity: a transposed view of a 2x3 buffer denotes the transposed tensor *)
Example C14_nonvacuous :
  denote [1; 2; 3; 4; 5; 6] (mkV 0 [(1, 3); (3, 2)]) = Some (mkT [3; 2] [1; 4; 2; 5; 3; 6]) /\
  InPlace.binary_op Z.add true true [2; 2] [2] [1; 2; 3; 4]%Z [10; 20]%Z
    = InPlace.binary_op Z.add false false [2; 2] [2] [1; 2; 3; 4]%Z [10; 20]%Z.
Proof. split; vm_compute; reflexivity. Qed.

(* Known finding F61 (recorded in known_findings.json): the attention operators compute
   QK^T and softmax(..)*V with a GEMM whose blocking -- and therefore f32 summation order --
   depends on the strides of its operands; the softmax probabilities are not exactly
   representable, so the sums are order-sensitive and the output can differ in the last bits
   between a contiguous and a strided K/V.  The witness is the implementation's observed
   outcome for input `L|Attention|95648709226710`: it fails the exact oracle but every
   element is within 2 ulp of the contiguous run. *)
From Coq Require Import String.
Import InPlace_cases.
Open Scope string_scope.
Definition C14_attention_witness : case :=
  Diff "Attention" "Attention [] inputs: f32[2, 1, 1, 4] f32[2, 1, 2, 4] f32[2, 1, 2, 2]" (OOk [(VT F32 [2;1;1;
    2]%N [3221696479;1065353216;1040698896;3199657196]%Z)]) [("permuted", OOk [(VT F32 [2;1;1;2]%N [3221696479
    ;1065353216;1040698896;3199657198]%Z)]);("stepped", OOk [(VT F32 [2;1;1;2]%N [3221696479;1065353216;
    1040698896;3199657198]%Z)]);("offset", OOk [(VT F32 [2;1;1;2]%N [3221696479;1065353216;1040698896;
    3199657196]%Z)]);("broadcast", OOk [(VT F32 [2;1;1;2]%N [3221696479;1065353216;1040698896;3199657196]%Z)])
    ;("mixed:1=offset", OOk [(VT F32 [2;1;1;2]%N [3221696479;1065353216;1040698896;3199657196]%Z)]);
    ("mixed:0=stepped,2=permuted", OOk [(VT F32 [2;1;1;2]%N [3221696479;1065353216;1040698896;
    3199657198]%Z)])].
Close Scope string_scope.

Example C14_attention_rounding_witness :
  exists c, layout_ok c = false /\ close_ok 2 c = true.
Proof. exists C14_attention_witness. split; vm_compute; reflexivity. Qed.
