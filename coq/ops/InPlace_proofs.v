(* C13/C14 -- proofs about the broadcasting decision logic and the binary algorithms. *)
From RV Require Import Prelude.
From Ops Require Import InPlace.
Open Scope N_scope.

(* ------------------------------------------------------------ list helpers *)
Lemma list_eqb_eq a b : list_eqb a b = true <-> a = b.
Proof.
  revert b; induction a as [|x a IH]; intros [|y b]; cbn [list_eqb]; split; intros H;
    try reflexivity; try discriminate.
  - apply andb_prop in H as [H1 H2]. apply N.eqb_eq in H1. apply IH in H2. now subst.
  - injection H as -> ->. rewrite N.eqb_refl. cbn [andb]. now apply IH.
Qed.

Lemma list_eqb_refl a : list_eqb a a = true.
Proof. now apply list_eqb_eq. Qed.

Lemma lenN_nat {A} (l : list A) n : lenN l = n -> length l = N.to_nat n.
Proof. unfold lenN. intros <-. now rewrite Nat2N.id. Qed.

Lemma lenN_of_nat {A} (l : list A) n : length l = N.to_nat n -> lenN l = n.
Proof. unfold lenN. intros ->. apply N2Nat.id. Qed.

Lemma prodN_app a b : prodN (a ++ b) = prodN a * prodN b.
Proof. induction a as [|x a IH]; cbn [app prodN]; [now rewrite N.mul_1_l|]. rewrite IH. lia. Qed.

Lemma prodN_rev a : prodN (rev a) = prodN a.
Proof. induction a as [|x a IH]; [reflexivity|]. cbn [rev]. rewrite prodN_app, IH. cbn [prodN]. lia. Qed.

Lemma prodN_ones l : Forall (eq 1) l -> prodN l = 1.
Proof. induction 1 as [|x l <- _ IH]; cbn [prodN]; [reflexivity|]. rewrite IH. reflexivity. Qed.

Lemma prodN_eq_1 l : prodN l = 1 -> Forall (eq 1) l.
Proof.
  induction l as [|x l IH]; cbn [prodN]; intros H; constructor.
  - apply N.eq_mul_1 in H. symmetry. apply H.
  - apply IH. apply N.eq_mul_1 in H. apply H.
Qed.

Lemma prodN_repeat_1 k : prodN (repeat 1 k) = 1.
Proof. induction k as [|k IH]; cbn [repeat prodN]; [reflexivity|]. rewrite IH. reflexivity. Qed.

Lemma pad_left_length n l : (length l <= n)%nat -> length (pad_left n l) = n.
Proof. intros H. unfold pad_left. rewrite app_length, repeat_length. lia. Qed.

Lemma pad_left_self l : pad_left (length l) l = l.
Proof. unfold pad_left. now rewrite Nat.sub_diag. Qed.

Lemma prodN_pad_left n l : prodN (pad_left n l) = prodN l.
Proof. unfold pad_left. rewrite prodN_app, prodN_repeat_1. lia. Qed.

Lemma concat_repeat_repeat {A} (x : A) m t :
  concat (repeat (repeat x m) t) = repeat x (t * m).
Proof.
  induction t as [|t IH]; [reflexivity|]. cbn [repeat concat]. rewrite IH.
  rewrite <- repeat_app. reflexivity.
Qed.

Lemma concat_repeat_app {A} (l : list A) a b :
  concat (repeat l (a + b)) = concat (repeat l a) ++ concat (repeat l b).
Proof. rewrite repeat_app. apply concat_app. Qed.

Lemma cycle_1 {A} (l : list A) : cycle 1 l = l.
Proof. unfold cycle. cbn. apply app_nil_r. Qed.

Lemma cycle_cycle {A} (l : list A) a b : cycle a (cycle b l) = cycle (a * b) l.
Proof.
  unfold cycle. rewrite N2Nat.inj_mul.
  induction (N.to_nat a) as [|n IH]; [reflexivity|].
  change (S n * N.to_nat b)%nat with (N.to_nat b + n * N.to_nat b)%nat.
  rewrite concat_repeat_app. cbn [repeat concat]. now rewrite IH.
Qed.

Lemma repeat_each_1 {A} (l : list A) : repeat_each 1 l = l.
Proof.
  unfold repeat_each. induction l as [|x l IH]; [reflexivity|].
  cbn [flat_map]. change (N.to_nat 1) with 1%nat. cbn [repeat app]. now f_equal.
Qed.

Lemma repeat_each_app {A} r (a b : list A) : repeat_each r (a ++ b) = repeat_each r a ++ repeat_each r b.
Proof. unfold repeat_each. apply flat_map_app. Qed.

Lemma repeat_each_concat {A} r (ls : list (list A)) :
  flat_map (repeat_each r) ls = repeat_each r (concat ls).
Proof.
  induction ls as [|l ls IH]; [reflexivity|]. cbn [flat_map concat]. now rewrite IH, repeat_each_app.
Qed.

Lemma length_concat_repeat {A} (l : list A) t : length (concat (repeat l t)) = (t * length l)%nat.
Proof. induction t as [|t IH]; [reflexivity|]. cbn [repeat concat]. rewrite app_length, IH. lia. Qed.

Lemma length_repeat_each {A} r (l : list A) : length (repeat_each r l) = (length l * N.to_nat r)%nat.
Proof.
  unfold repeat_each. induction l as [|x l IH]; [reflexivity|].
  cbn [flat_map length]. rewrite app_length, repeat_length, IH. lia.
Qed.

(* ---- chunks ---- *)
Lemma chunks_concat {A} k n (l : list A) : length l = (n * k)%nat -> concat (chunks k n l) = l.
Proof.
  revert l; induction n as [|n IH]; intros l H; cbn [chunks concat].
  - destruct l; [reflexivity|discriminate].
  - rewrite IH; [apply firstn_skipn|]. rewrite skipn_length. lia.
Qed.

Lemma flat_map_chunks_ext {A B} (g h : list A -> list B) k n (l : list A) :
  (forall c, length c = k -> g c = h c) -> length l = (n * k)%nat ->
  flat_map g (chunks k n l) = flat_map h (chunks k n l).
Proof.
  intros E. revert l; induction n as [|n IH]; intros l H; cbn [chunks flat_map]; [reflexivity|].
  rewrite E by (rewrite firstn_length; lia). f_equal. apply IH. rewrite skipn_length. lia.
Qed.

Lemma length_flat_map_chunks {A B} (g : list A -> list B) k n m (l : list A) :
  (forall c, length c = k -> length (g c) = m) -> length l = (n * k)%nat ->
  length (flat_map g (chunks k n l)) = (n * m)%nat.
Proof.
  intros E. revert l; induction n as [|n IH]; intros l H; cbn [chunks flat_map]; [reflexivity|].
  rewrite app_length, E by (rewrite firstn_length; lia). rewrite IH; [lia|]. rewrite skipn_length. lia.
Qed.

(* ---- take_while ---- *)
Fixpoint drop_while {A} (p : A -> bool) (l : list A) : list A :=
  match l with [] => [] | x :: r => if p x then drop_while p r else l end.

Lemma tw_split {A} (p : A -> bool) l : l = take_while p l ++ drop_while p l.
Proof. induction l as [|x l IH]; [reflexivity|]. cbn. destruct (p x); [cbn; now f_equal|reflexivity]. Qed.

Lemma tw_forall {A} (p : A -> bool) l : Forall (fun x => p x = true) (take_while p l).
Proof. induction l as [|x l IH]; cbn; [constructor|]. destruct (p x) eqn:E; now constructor. Qed.

Lemma dw_head {A} (p : A -> bool) l x r : drop_while p l = x :: r -> p x = false.
Proof.
  induction l as [|y l IH]; cbn; [discriminate|]. destruct (p y) eqn:E; [exact IH|].
  intros H. injection H as -> _. exact E.
Qed.

Lemma tw_app_stop {A} (p : A -> bool) a x b : p x = false -> take_while p (a ++ x :: b) = take_while p a.
Proof.
  intros Hx. induction a as [|y a IH]; cbn; [now rewrite Hx|]. destruct (p y); [now f_equal|reflexivity].
Qed.

Lemma dw_nil_all {A} (p : A -> bool) l : drop_while p l = [] -> Forall (fun x => p x = true) l.
Proof.
  intros H. rewrite (tw_split p l), H, app_nil_r. apply tw_forall.
Qed.

(* ------------------------------------------------------------ shape logic *)
Lemma bdim_comm x y : bdim x y = bdim y x.
Proof.
  unfold bdim. destruct (x =? y) eqn:E.
  - apply N.eqb_eq in E. subst. now rewrite N.eqb_refl.
  - rewrite (N.eqb_sym y x), E. destruct (x =? 1) eqn:Ex; destruct (y =? 1) eqn:Ey; try reflexivity.
    apply N.eqb_eq in Ex, Ey. apply N.eqb_neq in E. congruence.
Qed.

Lemma zip_bdim_comm a b : zip_bdim a b = zip_bdim b a.
Proof.
  revert b; induction a as [|x a IH]; intros [|y b]; cbn [zip_bdim]; try reflexivity.
  now rewrite bdim_comm, IH.
Qed.

Theorem broadcast_shapes_comm a b : broadcast_shapes a b = broadcast_shapes b a.
Proof. unfold broadcast_shapes. now rewrite Nat.max_comm, zip_bdim_comm. Qed.

Lemma bdim_one_r x : bdim x 1 = Some x.
Proof. unfold bdim. destruct (x =? 1) eqn:E; [apply N.eqb_eq in E; now subst|reflexivity]. Qed.

Lemma zip_bdim_ones a1 a2 b :
  zip_bdim (a1 ++ a2) (repeat 1 (length a1) ++ b) = option_map (app a1) (zip_bdim a2 b).
Proof.
  induction a1 as [|x a1 IH]; cbn [app length repeat zip_bdim].
  - now destruct (zip_bdim a2 b).
  - rewrite bdim_one_r, IH. now destruct (zip_bdim a2 b).
Qed.

Definition bc_dim (s t : N) : bool := (s =? t) || (s =? 1).

Lemma zip_bdim_all2 tgt s : all2 bc_dim s tgt = true -> zip_bdim tgt s = Some tgt.
Proof.
  revert s; induction tgt as [|t tgt IH]; intros [|x s]; cbn [all2 zip_bdim]; try discriminate; [reflexivity|].
  intros H. apply andb_prop in H as [H1 H2]. rewrite (IH _ H2).
  unfold bc_dim in H1. unfold bdim. destruct (t =? x) eqn:E; [reflexivity|].
  rewrite N.eqb_sym, E in H1. cbn [orb] in H1. rewrite H1.
  destruct (t =? 1) eqn:E1; [|reflexivity]. apply N.eqb_eq in E1, H1. subst. now rewrite N.eqb_refl in E.
Qed.

Lemma all2_length p a b : all2 p a b = true -> length a = length b.
Proof.
  revert b; induction a as [|x a IH]; intros [|y b]; cbn [all2]; try discriminate; [reflexivity|].
  intros H. apply andb_prop in H as [_ H]. cbn [length]. f_equal. now apply IH.
Qed.

Lemma can_broadcast_to_inv s t :
  can_broadcast_to s t = true ->
  (length s <= length t)%nat /\ all2 bc_dim s (skipn (length t - length s) t) = true.
Proof.
  unfold can_broadcast_to. destruct (length t <? length s)%nat eqn:E; [discriminate|].
  apply Nat.ltb_ge in E. intros H. split; [exact E|exact H].
Qed.

(* in_place_shape_ok: when b can be broadcast to a's shape the result shape is a's *)
Theorem in_place_shape_ok a b : can_broadcast_to b a = true -> broadcast_shapes a b = Some a.
Proof.
  intros H. apply can_broadcast_to_inv in H as [Hl Ha].
  unfold broadcast_shapes. rewrite Nat.max_l by exact Hl. rewrite pad_left_self.
  unfold pad_left.
  assert (Hk : length (firstn (length a - length b) a) = (length a - length b)%nat)
    by (rewrite firstn_length; lia).
  assert (E : zip_bdim (firstn (length a - length b) a ++ skipn (length a - length b) a)
                       (repeat 1 (length (firstn (length a - length b) a)) ++ b)
              = Some (firstn (length a - length b) a ++ skipn (length a - length b) a)).
  { rewrite zip_bdim_ones, (zip_bdim_all2 _ _ Ha). reflexivity. }
  rewrite Hk in E. rewrite (firstn_skipn (length a - length b) a) in E. exact E.
Qed.

(* compatibility of a (padded) source shape with a target shape, dimension by dimension *)
Definition compat (from to : list N) : Prop := Forall2 (fun f t => f = t \/ f = 1) from to.

Lemma compat_length from to : compat from to -> length from = length to.
Proof. induction 1; cbn [length]; congruence. Qed.

Lemma all2_compat s t : all2 bc_dim s t = true -> compat s t.
Proof.
  revert t; induction s as [|x s IH]; intros [|y t]; cbn [all2]; try discriminate; [constructor|].
  intros H. apply andb_prop in H as [H1 H2]. constructor; [|now apply IH].
  unfold bc_dim in H1. apply orb_prop in H1 as [H1|H1]; apply N.eqb_eq in H1; auto.
Qed.

Lemma compat_ones k t : length t = k -> compat (repeat 1 k) t.
Proof.
  revert t; induction k as [|k IH]; intros [|y t] H; try discriminate; [constructor|].
  cbn [repeat]. constructor; [now right|]. apply IH. now injection H.
Qed.

Lemma compat_pad from to : can_broadcast_to from to = true -> compat (pad_left (length to) from) to.
Proof.
  intros H. apply can_broadcast_to_inv in H as [Hl Ha]. unfold pad_left, compat.
  rewrite <- (firstn_skipn (length to - length from) to) at 2.
  apply Forall2_app; [|now apply all2_compat].
  apply compat_ones. rewrite firstn_length. lia.
Qed.

Lemma compat_refl s : compat s s.
Proof. induction s; constructor; auto. Qed.

(* broadcast_shapes a b = Some a only if b can be broadcast to a *)
Lemma zip_bdim_self_all2 a b : zip_bdim a b = Some a -> all2 bc_dim b a = true.
Proof.
  revert b; induction a as [|x a IH]; intros [|y b]; cbn [zip_bdim all2]; try discriminate; [reflexivity|].
  destruct (bdim x y) as [d|] eqn:Ed; [|discriminate].
  destruct (zip_bdim a b) as [r|] eqn:Er; [|discriminate].
  intros H. injection H as -> ->. rewrite (IH _ Er), andb_true_r.
  unfold bdim in Ed. unfold bc_dim. destruct (x =? y) eqn:E.
  - rewrite N.eqb_sym, E. reflexivity.
  - destruct (x =? 1) eqn:E1.
    + injection Ed as ->. now rewrite N.eqb_refl in E.
    + destruct (y =? 1) eqn:E2; [apply orb_true_r|discriminate].
Qed.

Lemma zip_bdim_length a b r : zip_bdim a b = Some r -> length a = length b /\ length r = length a.
Proof.
  revert b r; induction a as [|x a IH]; intros [|y b] r; cbn [zip_bdim]; try discriminate.
  - intros H. injection H as <-. auto.
  - destruct (bdim x y); [|discriminate]. destruct (zip_bdim a b) as [r'|] eqn:E; [|discriminate].
    intros H. injection H as <-. destruct (IH _ _ E) as [H1 H2]. cbn [length]. auto.
Qed.

Lemma all2_skip_ones k b a :
  all2 bc_dim (repeat 1 k ++ b) a = true -> all2 bc_dim b (skipn k a) = true.
Proof.
  revert a; induction k as [|k IH]; intros a H; [exact H|].
  destruct a as [|y a]; cbn [repeat app all2] in H; [discriminate|].
  apply andb_prop in H as [_ H]. cbn [skipn]. now apply IH.
Qed.

Theorem broadcast_self_can_broadcast a b : broadcast_shapes a b = Some a -> can_broadcast_to b a = true.
Proof.
  unfold broadcast_shapes. intros H.
  destruct (zip_bdim_length _ _ _ H) as [Hl Hr].
  assert (Hle : (length b <= length a)%nat).
  { destruct (Nat.le_gt_cases (length b) (length a)) as [L|L]; [exact L|].
    rewrite pad_left_length in Hr by lia. lia. }
  rewrite Nat.max_l in H by exact Hle. rewrite pad_left_self in H.
  apply zip_bdim_self_all2 in H. unfold can_broadcast_to.
  destruct (length a <? length b)%nat eqn:E; [apply Nat.ltb_lt in E; lia|].
  unfold pad_left in H. now apply all2_skip_ones.
Qed.

(* ------------------------------------------------------------ bflat *)
Lemma flat_map_idf {A} (ls : list (list A)) : flat_map (fun c => c) ls = concat ls.
Proof. induction ls as [|l ls IH]; [reflexivity|]. cbn [flat_map concat]. now rewrite IH. Qed.

Lemma bflat_length {A} from to (xs : list A) :
  compat from to -> lenN xs = prodN from -> lenN (bflat from to xs) = prodN to.
Proof.
  intros C. revert xs. induction C as [|f t from to Hft C IH]; intros xs H; cbn [bflat prodN] in *.
  - exact H.
  - destruct (f =? 1) eqn:E.
    + apply N.eqb_eq in E. subst f. rewrite N.mul_1_l in H.
      apply lenN_of_nat. rewrite length_concat_repeat, (lenN_nat _ _ (IH _ H)), N2Nat.inj_mul. reflexivity.
    + destruct Hft as [-> | ->]; [|now rewrite N.eqb_refl in E].
      apply lenN_of_nat.
      rewrite (length_flat_map_chunks _ (N.to_nat (prodN from)) (N.to_nat t) (N.to_nat (prodN to))).
      * rewrite N2Nat.inj_mul. reflexivity.
      * intros c Hc. apply lenN_nat. apply IH. now apply lenN_of_nat.
      * rewrite (lenN_nat _ _ H), N2Nat.inj_mul. reflexivity.
Qed.

Lemma bflat_id {A} s (xs : list A) : lenN xs = prodN s -> bflat s s xs = xs.
Proof.
  revert xs; induction s as [|f s IH]; intros xs H; cbn [bflat prodN] in *; [reflexivity|].
  destruct (f =? 1) eqn:E.
  - apply N.eqb_eq in E. subst f. rewrite N.mul_1_l in H. change (N.to_nat 1) with 1%nat.
    cbn [repeat concat]. rewrite app_nil_r. now apply IH.
  - rewrite (flat_map_chunks_ext _ (fun c => c) (N.to_nat (prodN s)) (N.to_nat f)).
    + rewrite flat_map_idf. apply chunks_concat. rewrite (lenN_nat _ _ H), N2Nat.inj_mul. reflexivity.
    + intros c Hc. apply IH. now apply lenN_of_nat.
    + rewrite (lenN_nat _ _ H), N2Nat.inj_mul. reflexivity.
Qed.

Lemma bflat_ones {A} from to (x : A) :
  Forall (eq 1) from -> length from = length to -> bflat from to [x] = repeat x (N.to_nat (prodN to)).
Proof.
  intros F. revert to. induction F as [|f from <- _ IH]; intros [|t to] L; try discriminate; cbn [bflat prodN].
  - reflexivity.
  - rewrite N.eqb_refl. rewrite IH by (now injection L). rewrite concat_repeat_repeat, N2Nat.inj_mul. reflexivity.
Qed.

Lemma forall_fst_ones (T : list (N * N)) : Forall (fun p => fst p = 1) T -> Forall (eq 1) (map fst T).
Proof. induction 1 as [|p T Hp _ IH]; cbn [map]; constructor; auto. Qed.

Lemma bflat_lead {A} (L : list (N * N)) F T (xs : list A) :
  Forall (fun p => fst p = 1) L ->
  bflat (map fst L ++ F) (map snd L ++ T) xs = cycle (prod_to L) (bflat F T xs).
Proof.
  induction 1 as [|[f t] L Hf _ IH]; cbn [map app bflat fst snd].
  - unfold prod_to. cbn [map prodN]. now rewrite cycle_1.
  - cbn [fst] in Hf. subst f. rewrite N.eqb_refl, IH.
    unfold prod_to. cbn [map snd prodN]. fold (prod_to L). rewrite <- cycle_cycle. reflexivity.
Qed.

Lemma bflat_mid_trail {A} (M T : list (N * N)) :
  Forall (fun p => fst p = snd p) M -> Forall (fun p => fst p = 1) T ->
  forall xs : list A, lenN xs = prodN (map fst M) ->
  bflat (map fst M ++ map fst T) (map snd M ++ map snd T) xs = repeat_each (prod_to T) xs.
Proof.
  intros HM HT. induction HM as [|[f t] M Hft _ IH]; intros xs H; cbn [map app fst snd prodN] in *.
  - apply lenN_nat in H. change (N.to_nat 1) with 1%nat in H.
    destruct xs as [|x [|y xs]]; cbn [length] in H; try lia.
    rewrite bflat_ones.
    + unfold repeat_each, prod_to. cbn [flat_map]. now rewrite app_nil_r.
    + now apply forall_fst_ones.
    + now rewrite !map_length.
  - subst t. cbn [bflat]. destruct (f =? 1) eqn:E.
    + apply N.eqb_eq in E; subst f. rewrite N.mul_1_l in H. change (N.to_nat 1) with 1%nat.
      cbn [repeat concat]. rewrite app_nil_r. now apply IH.
    + assert (P1 : prodN (map fst M ++ map fst T) = prodN (map fst M)).
      { rewrite prodN_app, (prodN_ones (map fst T)) by (now apply forall_fst_ones). lia. }
      rewrite P1.
      rewrite (flat_map_chunks_ext _ (repeat_each (prod_to T)) (N.to_nat (prodN (map fst M))) (N.to_nat f)).
      * rewrite repeat_each_concat, chunks_concat; [reflexivity|].
        rewrite (lenN_nat _ _ H), N2Nat.inj_mul. reflexivity.
      * intros c Hc. apply IH. now apply lenN_of_nat.
      * rewrite (lenN_nat _ _ H), N2Nat.inj_mul. reflexivity.
Qed.

Lemma map_fst_combine {X Y} (a : list X) (b : list Y) : length a = length b -> map fst (combine a b) = a.
Proof.
  revert b; induction a as [|x a IH]; intros [|y b] H; try discriminate; [reflexivity|].
  cbn [combine map fst]. f_equal. apply IH. now injection H.
Qed.

Lemma map_snd_combine {X Y} (a : list X) (b : list Y) : length a = length b -> map snd (combine a b) = b.
Proof.
  revert b; induction a as [|x a IH]; intros [|y b] H; try discriminate; [reflexivity|].
  cbn [combine map snd]. f_equal. apply IH. now injection H.
Qed.

Lemma fb_skip_fst p : fb_skip p = true -> fst p = 1.
Proof. unfold fb_skip. intros H. apply andb_prop in H as [H _]. now apply N.eqb_eq. Qed.

Lemma mid_decomp {X} (lead : list X) x D T n :
  n = length (lead ++ x :: rev D ++ rev T) ->
  firstn (n - length T - length lead) (skipn (length lead) (lead ++ x :: rev D ++ rev T)) = x :: rev D.
Proof.
  intros ->. rewrite skipn_app, skipn_all, Nat.sub_diag. cbn [skipn app].
  replace (length (lead ++ x :: rev D ++ rev T) - length T - length lead)%nat with (length (x :: rev D)).
  - change (x :: rev D ++ rev T) with ((x :: rev D) ++ rev T).
    rewrite firstn_app, firstn_all, Nat.sub_diag. cbn [firstn]. apply app_nil_r.
  - rewrite app_length. cbn [length]. rewrite app_length, !rev_length. lia.
Qed.

Lemma forall_rev {X} (P : X -> Prop) l : Forall P l -> Forall P (rev l).
Proof. rewrite !Forall_forall. intros H x Hx. apply H. now apply in_rev. Qed.

(* fast_broadcast_sound: when the fast path is chosen, cycling and repeating the
   contiguous elements of the smaller operand is exactly its broadcast *)
Theorem fast_broadcast_sound {A} from to c r (xs : list A) :
  fast_broadcast from to = FbSome c r ->
  can_broadcast_to from to = true ->
  lenN xs = prodN from ->
  broadcast_flat from to xs = cycle c (repeat_each r xs).
Proof.
  intros H Hc Hx. unfold fast_broadcast in H. unfold broadcast_flat.
  pose proof (can_broadcast_to_inv _ _ Hc) as [Hl _].
  destruct (list_eqb from to) eqn:E1.
  { apply list_eqb_eq in E1. subst to. injection H as <- <-.
    rewrite pad_left_self, bflat_id by exact Hx. now rewrite repeat_each_1, cycle_1. }
  destruct (prodN from =? 1) eqn:E2.
  { apply N.eqb_eq in E2. injection H as <- <-. rewrite E2 in Hx.
    apply lenN_nat in Hx. change (N.to_nat 1) with 1%nat in Hx.
    destruct xs as [|x [|y xs]]; cbn [length] in Hx; try lia.
    rewrite bflat_ones.
    - rewrite cycle_1. unfold repeat_each. cbn [flat_map]. now rewrite app_nil_r.
    - apply prodN_eq_1. now rewrite prodN_pad_left.
    - now apply pad_left_length. }
  destruct (length to <? length from)%nat eqn:E3; [discriminate|]. clear E3.
  remember (pad_left (length to) from) as fp eqn:Efp.
  assert (Lfp : length fp = length to) by (subst fp; now apply pad_left_length).
  remember (combine fp to) as pairs eqn:Epairs.
  assert (Pf : map fst pairs = fp) by (subst pairs; now apply map_fst_combine).
  assert (Ps : map snd pairs = to) by (subst pairs; now apply map_snd_combine).
  assert (Lp : length pairs = length to) by (subst pairs; rewrite combine_length; lia).
  clear Epairs.
  pose proof (tw_split fb_skip pairs) as Sp.
  pose proof (tw_forall fb_skip pairs) as Fl.
  remember (take_while fb_skip pairs) as lead eqn:Elead. clear Elead.
  destruct (drop_while fb_skip pairs) as [|x rest] eqn:Ed.
  { exfalso. apply dw_nil_all in Ed. apply N.eqb_neq in E2. apply E2.
    rewrite <- (prodN_pad_left (length to) from), <- Efp, <- Pf.
    apply prodN_ones. apply forall_fst_ones. eapply Forall_impl; [|exact Ed].
    intros p Hp. now apply fb_skip_fst. }
  pose proof (dw_head _ _ _ _ Ed) as Hx0. clear Ed.
  pose proof (tw_split fb_skip (rev rest)) as Sr.
  pose proof (tw_forall fb_skip (rev rest)) as Ft.
  assert (Et : take_while fb_skip (rev pairs) = take_while fb_skip (rev rest)).
  { rewrite Sp, rev_app_distr. cbn [rev]. rewrite <- app_assoc. cbn [app]. now apply tw_app_stop. }
  rewrite Et in H. clear Et.
  remember (take_while fb_skip (rev rest)) as T eqn:ET. clear ET.
  remember (drop_while fb_skip (rev rest)) as D eqn:ED. clear ED.
  assert (Er : rest = rev D ++ rev T).
  { rewrite <- rev_app_distr, <- Sr. now rewrite rev_involutive. }
  rewrite Er in Sp. clear Er Sr rest.
  rewrite Sp in H at 1.
  rewrite (mid_decomp lead x D T (length to)) in H by (now rewrite <- Sp, Lp).
  destruct (forallb (fun p => fst p =? snd p) (x :: rev D)) eqn:Em; [|discriminate].
  injection H as <- <-.
  assert (FM : Forall (fun p : N * N => fst p = snd p) (x :: rev D)).
  { apply Forall_forall. intros p Hp. rewrite forallb_forall in Em. apply N.eqb_eq. now apply Em. }
  assert (FL : Forall (fun p : N * N => fst p = 1) lead).
  { eapply Forall_impl; [|exact Fl]. intros p Hp. now apply fb_skip_fst. }
  assert (FT : Forall (fun p : N * N => fst p = 1) (rev T)).
  { apply forall_rev. eapply Forall_impl; [|exact Ft]. intros p Hp. now apply fb_skip_fst. }
  assert (Hp : prodN from = prodN (map fst (x :: rev D))).
  { rewrite <- (prodN_pad_left (length to) from), <- Efp, <- Pf, Sp.
    change (x :: rev D ++ rev T) with ((x :: rev D) ++ rev T).
    rewrite !map_app, !prodN_app.
    rewrite (prodN_ones (map fst lead)) by (now apply forall_fst_ones).
    rewrite (prodN_ones (map fst (rev T))) by (now apply forall_fst_ones). lia. }
  rewrite <- Pf, <- Ps, Sp.
  change (x :: rev D ++ rev T) with ((x :: rev D) ++ rev T).
  rewrite !map_app. rewrite (bflat_lead lead _ _ xs FL).
  rewrite (bflat_mid_trail (x :: rev D) (rev T) FM FT xs) by (now rewrite Hx).
  unfold prod_to at 2. rewrite map_rev, prodN_rev. reflexivity.
Qed.

(* ------------------------------------------------------------ the binary algorithms *)
Lemma fast_broadcast_no_panic from to : (length from <= length to)%nat -> fast_broadcast from to <> FbPanic.
Proof.
  intros H. unfold fast_broadcast.
  destruct (list_eqb from to); [discriminate|]. destruct (prodN from =? 1); [discriminate|].
  destruct (length to <? length from)%nat eqn:E; [apply Nat.ltb_lt in E; lia|].
  match goal with |- (if ?b then _ else _) <> _ => destruct b end; discriminate.
Qed.

Lemma broadcast_flat_self {A} s (xs : list A) : lenN xs = prodN s -> broadcast_flat s s xs = xs.
Proof. intros H. unfold broadcast_flat. rewrite pad_left_self. now apply bflat_id. Qed.

Lemma broadcast_flat_length {A} from to (xs : list A) :
  can_broadcast_to from to = true -> lenN xs = prodN from -> lenN (broadcast_flat from to xs) = prodN to.
Proof.
  intros Hc Hx. unfold broadcast_flat. apply bflat_length; [now apply compat_pad|].
  now rewrite prodN_pad_left.
Qed.

Lemma lenN_cycle_repeat {A} c r (xs : list A) : lenN (cycle c (repeat_each r xs)) = c * lenN xs * r.
Proof.
  unfold lenN, cycle. rewrite length_concat_repeat, length_repeat_each. lia.
Qed.

(* the fast path of either algorithm computes the general result, and its assert holds *)
Lemma fast_path_ok {A} (f : A -> A -> A) sa sb (xa xb : list A) c r :
  can_broadcast_to sb sa = true -> wf sa xa -> wf sb xb ->
  fast_broadcast sb sa = FbSome c r ->
  (c * lenN xb * r =? lenN xa) = true /\
  map2 f xa (cycle c (repeat_each r xb)) = map2 f xa (broadcast_flat sb sa xb).
Proof.
  intros Hc Ha Hb Hf. unfold wf in *.
  pose proof (fast_broadcast_sound _ _ _ _ xb Hf Hc Hb) as S.
  split; [|now rewrite S].
  apply N.eqb_eq. rewrite <- lenN_cycle_repeat, <- S, Ha. now apply broadcast_flat_length.
Qed.

Section BinaryProofs.
  Context {A : Type} (f : A -> A -> A).

  (* binary_op computes the reference result whatever the contiguity of its operands *)
  Theorem binary_op_eq_spec ca cb sa sb (xa xb : list A) :
    wf sa xa -> wf sb xb -> binary_op f ca cb sa sb xa xb = binary_spec f sa sb xa xb.
  Proof.
    intros Ha Hb. unfold binary_op, binary_spec.
    destruct (broadcast_shapes sa sb) as [out|] eqn:Eo; [|reflexivity].
    destruct (list_eqb sa out && ca && cb) eqn:Ec; [|reflexivity].
    apply andb_prop in Ec as [Ec _]. apply andb_prop in Ec as [Ec _].
    apply list_eqb_eq in Ec. subst out.
    pose proof (broadcast_self_can_broadcast _ _ Eo) as Hc.
    destruct (fast_broadcast sb sa) as [| |c r] eqn:Ef.
    - exfalso. apply (fast_broadcast_no_panic sb sa); [|exact Ef].
      now apply can_broadcast_to_inv in Hc as [Hl _].
    - reflexivity.
    - destruct (fast_path_ok f sa sb xa xb c r Hc Ha Hb Ef) as [-> ->].
      now rewrite broadcast_flat_self by exact Ha.
  Qed.

  Lemma map2_comm (Hf : forall x y, f x y = f y x) (l m : list A) : map2 f l m = map2 f m l.
  Proof.
    revert m; induction l as [|x l IH]; intros [|y m]; cbn [map2]; try reflexivity. now rewrite Hf, IH.
  Qed.

  Theorem binary_spec_comm (Hf : forall x y, f x y = f y x) sa sb (xa xb : list A) :
    binary_spec f sa sb xa xb = binary_spec f sb sa xb xa.
  Proof.
    unfold binary_spec. rewrite (broadcast_shapes_comm sb sa).
    destruct (broadcast_shapes sa sb); [|reflexivity]. now rewrite map2_comm.
  Qed.

  Theorem binary_commutative_op_eq_spec (Hf : forall x y, f x y = f y x) ca cb sa sb (xa xb : list A) :
    wf sa xa -> wf sb xb -> binary_commutative_op f ca cb sa sb xa xb = binary_spec f sa sb xa xb.
  Proof.
    intros Ha Hb. unfold binary_commutative_op. destruct (lenN xa <? lenN xb).
    - rewrite binary_op_eq_spec by assumption. now apply binary_spec_comm.
    - now apply binary_op_eq_spec.
  Qed.

  (* run_in_place: in place when possible, otherwise the operator's normal function *)
  Theorem run_in_place_eq_spec normal ca cb sa sb (xa xb : list A) :
    wf sa xa -> wf sb xb ->
    (forall ca' cb', normal ca' cb' sa sb xa xb = binary_spec f sa sb xa xb) ->
    run_in_place f normal ca cb sa sb xa xb = binary_spec f sa sb xa xb.
  Proof.
    intros Ha Hb Hn. unfold run_in_place, can_run_in_place.
    destruct (can_broadcast_to sb sa) eqn:Hc; [|apply Hn].
    unfold binary_spec. rewrite (in_place_shape_ok _ _ Hc).
    rewrite broadcast_flat_self by exact Ha.
    unfold binary_op_in_place. destruct cb; [|reflexivity].
    destruct (fast_broadcast sb sa) as [| |c r] eqn:Ef.
    - exfalso. apply (fast_broadcast_no_panic sb sa); [|exact Ef].
      now apply can_broadcast_to_inv in Hc as [Hl _].
    - reflexivity.
    - destruct ca; [|reflexivity].
      now destruct (fast_path_ok f sa sb xa xb c r Hc Ha Hb Ef) as [-> ->].
  Qed.

  (* C13, first sentence, for the elementwise binary operators: whatever the normal run
     returns (a tensor or the shape error), the in-place run on the owned LHS returns the
     same, for any kernel f and any contiguity of either operand in either run *)
  Theorem binary_in_place_eq ca cb ca' cb' sa sb (xa xb : list A) :
    wf sa xa -> wf sb xb ->
    run_in_place f (binary_op f) ca' cb' sa sb xa xb = binary_op f ca cb sa sb xa xb.
  Proof.
    intros Ha Hb. rewrite (binary_op_eq_spec ca cb) by assumption.
    apply run_in_place_eq_spec; try assumption. intros. now apply binary_op_eq_spec.
  Qed.

  (* C13, second sentence: for a commutative kernel (Add, Mul: binary_commutative_op is the
     normal function) the executor may pass EITHER operand as the in-place one *)
  Theorem commuted_eq (Hf : forall x y, f x y = f y x) ca cb ca' cb' sa sb (xa xb : list A) :
    wf sa xa -> wf sb xb ->
    run_in_place f (binary_commutative_op f) cb' ca' sb sa xb xa
    = binary_commutative_op f ca cb sa sb xa xb
    /\ run_in_place f (binary_commutative_op f) ca' cb' sa sb xa xb
    = binary_commutative_op f ca cb sa sb xa xb.
  Proof.
    intros Ha Hb. rewrite (binary_commutative_op_eq_spec Hf ca cb) by assumption. split.
    - rewrite run_in_place_eq_spec; try assumption.
      + now apply binary_spec_comm.
      + intros. now apply binary_commutative_op_eq_spec.
    - apply run_in_place_eq_spec; try assumption. intros. now apply binary_commutative_op_eq_spec.
  Qed.

  (* neither algorithm can hit one of its asserts *)
  Theorem binary_never_panics ca cb sa sb (xa xb : list A) :
    wf sa xa -> wf sb xb ->
    binary_op f ca cb sa sb xa xb <> BPanic /\
    run_in_place f (binary_op f) ca cb sa sb xa xb <> BPanic.
  Proof.
    intros Ha Hb. rewrite (binary_in_place_eq ca cb ca cb) by assumption.
    rewrite binary_op_eq_spec by assumption. unfold binary_spec.
    destruct (broadcast_shapes sa sb); split; discriminate.
  Qed.

  (* C14 for the binary operators: the kernel selection by contiguity does not show *)
  Theorem binary_op_layout_independent ca cb ca' cb' sa sb (xa xb : list A) :
    wf sa xa -> wf sb xb -> binary_op f ca cb sa sb xa xb = binary_op f ca' cb' sa sb xa xb.
  Proof. intros Ha Hb. now rewrite !binary_op_eq_spec by assumption. Qed.
End BinaryProofs.
