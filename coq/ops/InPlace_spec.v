(* C13/C14 -- the recursive definition of [bflat] (used by the theorems) agrees with the
   index-level definition of numpy.broadcast_to: element [idx] of the result is the source
   element whose index is [idx] with 0 along every broadcast dimension. *)
From RV Require Import Prelude.
From Ops Require Import InPlace InPlace_proofs.
Open Scope N_scope.

Lemma lin_lt shape idx : valid_idx shape idx = true -> lin shape idx < prodN shape.
Proof.
  revert idx; induction shape as [|n r IH]; intros [|i ir]; cbn [valid_idx lin prodN]; try discriminate; [lia|].
  intros H. apply andb_prop in H as [H1 H2]. apply N.ltb_lt in H1. specialize (IH _ H2). nia.
Qed.

Lemma valid_bsrc from to idx : compat from to -> valid_idx to idx = true -> valid_idx from (bsrc from idx) = true.
Proof.
  intros C. revert idx. induction C as [|f t from to Hft C IH]; intros [|i ir]; cbn [valid_idx bsrc]; try discriminate; [reflexivity|].
  intros H. apply andb_prop in H as [H1 H2]. apply N.ltb_lt in H1. rewrite (IH _ H2), andb_true_r.
  destruct (f =? 1) eqn:E; apply N.ltb_lt.
  - apply N.eqb_eq in E. lia.
  - destruct Hft as [-> | ->]; [exact H1|now rewrite N.eqb_refl in E].
Qed.

Lemma nth_error_concat_repeat {A} (Y : list A) t i j :
  (i < t)%nat -> (j < length Y)%nat -> nth_error (concat (repeat Y t)) (i * length Y + j) = nth_error Y j.
Proof.
  revert i; induction t as [|t IH]; intros i Hi Hj; [lia|]. cbn [repeat concat].
  destruct i as [|i].
  - cbn [Nat.mul Nat.add]. now apply nth_error_app1.
  - rewrite nth_error_app2 by (cbn [Nat.mul]; lia).
    replace (S i * length Y + j - length Y)%nat with (i * length Y + j)%nat by (cbn [Nat.mul]; lia).
    apply IH; lia.
Qed.

Lemma nth_error_flat_map_blocks {A B} (g : A -> list B) (l : list A) m i j :
  (forall x, In x l -> length (g x) = m) -> (j < m)%nat ->
  nth_error (flat_map g l) (i * m + j) = match nth_error l i with Some x => nth_error (g x) j | None => None end.
Proof.
  revert i; induction l as [|x l IH]; intros i Hm Hj; cbn [flat_map].
  - destruct i; cbn [nth_error]; now destruct (_ + _)%nat.
  - assert (Hx : length (g x) = m) by (apply Hm; now left).
    destruct i as [|i]; cbn [nth_error].
    + cbn [Nat.mul Nat.add]. apply nth_error_app1. lia.
    + rewrite nth_error_app2 by (cbn [Nat.mul]; lia).
      replace (S i * m + j - length (g x))%nat with (i * m + j)%nat by (cbn [Nat.mul]; lia).
      apply IH; [|exact Hj]. intros y Hy. apply Hm. now right.
Qed.

Lemma chunks_lengths {A} k n (l : list A) c : length l = (n * k)%nat -> In c (chunks k n l) -> length c = k.
Proof.
  revert l; induction n as [|n IH]; intros l H Hi; cbn [chunks] in Hi; [destruct Hi|].
  destruct Hi as [<-|Hi].
  - rewrite firstn_length. lia.
  - apply (IH (skipn k l)); [|exact Hi]. rewrite skipn_length. lia.
Qed.

Lemma skipn_skipn_add {A} a b (l : list A) : skipn a (skipn b l) = skipn (b + a) l.
Proof.
  revert l; induction b as [|b IH]; intros l; [reflexivity|].
  destruct l as [|x l]; [now destruct a|]. cbn [skipn Nat.add]. apply IH.
Qed.

Lemma nth_error_chunks {A} k n (l : list A) i :
  (i < n)%nat -> nth_error (chunks k n l) i = Some (firstn k (skipn (i * k) l)).
Proof.
  revert l i; induction n as [|n IH]; intros l i Hi; [lia|]. cbn [chunks].
  destruct i as [|i]; cbn [nth_error]; [reflexivity|].
  rewrite IH by lia. rewrite skipn_skipn_add. reflexivity.
Qed.

Lemma nth_error_firstn_lt {A} k (l : list A) j : (j < k)%nat -> nth_error (firstn k l) j = nth_error l j.
Proof.
  revert l j; induction k as [|k IH]; intros l j Hj; [lia|].
  destruct l as [|x l]; [now destruct j|]. cbn [firstn]. destruct j as [|j]; [reflexivity|].
  cbn [nth_error]. apply IH. lia.
Qed.

Lemma nth_error_skipn_add {A} a (l : list A) j : nth_error (skipn a l) j = nth_error l (a + j).
Proof.
  revert l; induction a as [|a IH]; intros l; [reflexivity|].
  destruct l as [|x l]; [now destruct j|]. cbn [skipn Nat.add nth_error]. apply IH.
Qed.

(* element [idx] of the broadcast = the source element at [bsrc from idx] *)
Theorem bflat_index {A} from to (xs : list A) :
  compat from to -> lenN xs = prodN from ->
  forall idx, valid_idx to idx = true ->
  nth_error (bflat from to xs) (N.to_nat (lin to idx)) = nth_error xs (N.to_nat (lin from (bsrc from idx))).
Proof.
  intros C. revert xs. induction C as [|f t from to Hft C IH]; intros xs Hx idx Hv.
  - destruct idx; [reflexivity|discriminate].
  - destruct idx as [|i ir]; [discriminate|]. cbn [valid_idx] in Hv.
    apply andb_prop in Hv as [Hi Hv]. apply N.ltb_lt in Hi.
    pose proof (lin_lt _ _ Hv) as Hl.
    pose proof (lin_lt _ _ (valid_bsrc _ _ _ C Hv)) as Hs.
    cbn [bflat lin bsrc prodN] in *. destruct (f =? 1) eqn:E.
    + apply N.eqb_eq in E. subst f. rewrite N.mul_1_l in Hx.
      pose proof (bflat_length _ _ _ C Hx) as HY. apply lenN_nat in HY.
      rewrite N.mul_0_l, N.add_0_l, <- (IH _ Hx _ Hv).
      rewrite N2Nat.inj_add, N2Nat.inj_mul, <- HY.
      apply nth_error_concat_repeat; lia.
    + destruct Hft as [-> | ->]; [|now rewrite N.eqb_refl in E].
      assert (Lx : length xs = (N.to_nat t * N.to_nat (prodN from))%nat)
        by (rewrite (lenN_nat _ _ Hx), N2Nat.inj_mul; reflexivity).
      rewrite !N2Nat.inj_add, !N2Nat.inj_mul.
      rewrite (nth_error_flat_map_blocks _ _ (N.to_nat (prodN to))).
      * rewrite nth_error_chunks by lia.
        rewrite IH; [|apply lenN_of_nat; rewrite firstn_length, skipn_length; nia|exact Hv].
        rewrite nth_error_firstn_lt by lia. apply nth_error_skipn_add.
      * intros c Hc. apply lenN_nat. apply bflat_length; [exact C|].
        apply lenN_of_nat. exact (chunks_lengths _ _ _ _ Lx Hc).
      * lia.
Qed.

(* the same for an operand of lower rank (implicitly left-padded with 1s) *)
Theorem broadcast_flat_index {A} from to (xs : list A) :
  can_broadcast_to from to = true -> lenN xs = prodN from ->
  forall idx, valid_idx to idx = true ->
  nth_error (broadcast_flat from to xs) (N.to_nat (lin to idx))
  = nth_error xs (N.to_nat (lin (pad_left (length to) from) (bsrc (pad_left (length to) from) idx))).
Proof.
  intros Hc Hx idx Hv. unfold broadcast_flat. apply bflat_index; [now apply compat_pad| |exact Hv].
  now rewrite prodN_pad_left.
Qed.
