(* Basic facts about the evaluation model: inversion of bind2/chk, i32 range of results,
   truncating and ceiling division. *)
From RV Require Import Prelude.
From SymExpr Require Import SymExprModel.
From Coq Require Import ZifyBool.
Open Scope Z_scope.

Ltac Zify.zify_post_hook ::= Z.to_euclidean_division_equations.

Definition I32 (z : Z) : Prop := i32_min <= z <= i32_max.

Lemma in_i32_iff z : in_i32 z = true <-> I32 z.
Proof. unfold in_i32, I32. lia. Qed.

Lemma in_i32_false z : in_i32 z = false <-> ~ I32 z.
Proof. unfold in_i32, I32. lia. Qed.

Lemma wrap32_range z : I32 (wrap32 z).
Proof.
  unfold I32, wrap32, i32_min, i32_max.
  pose proof (Z.mod_pos_bound (z + 2147483648) 4294967296 eq_refl). lia.
Qed.

Lemma wrap32_id z : I32 z -> wrap32 z = z.
Proof.
  unfold I32, wrap32, i32_min, i32_max. intros H.
  rewrite Z.mod_small by lia. lia.
Qed.

Lemma wrap32_mod z : exists k, wrap32 z = z + k * 4294967296.
Proof.
  unfold wrap32. exists (- ((z + 2147483648) / 4294967296)).
  pose proof (Z.div_mod (z + 2147483648) 4294967296 ltac:(lia)). lia.
Qed.

(* two in-range numbers that differ by a multiple of 2^32 are equal *)
Lemma i32_cong_eq a b k : I32 a -> I32 b -> a = b + k * 4294967296 -> a = b.
Proof. unfold I32, i32_min, i32_max. intros. lia. Qed.

Lemma wrap32_cong a b k : a = b + k * 4294967296 -> wrap32 a = wrap32 b.
Proof.
  intros ->. unfold wrap32. f_equal.
  replace (b + k * 4294967296 + 2147483648) with (b + 2147483648 + k * 4294967296) by lia.
  apply Z.mod_add. lia.
Qed.

Lemma wrap32_idem z : wrap32 (wrap32 z) = wrap32 z.
Proof. apply wrap32_id, wrap32_range. Qed.

(* ---- inversion ---- *)
Lemma bind2_ok a b f v :
  bind2 a b f = Ok v -> exists x y, a = Ok x /\ b = Ok y /\ f x y = Ok v.
Proof.
  unfold bind2. destruct a; try discriminate. destruct b; try discriminate.
  intros H. eauto.
Qed.

Lemma chk_false_ok z v : chk false z = Ok v -> v = z /\ I32 z.
Proof.
  unfold chk. destruct (in_i32 z) eqn:E; [|discriminate].
  intros H; inversion H; subst. split; [reflexivity|]. now apply in_i32_iff.
Qed.

Lemma chk_true_ok z v : chk true z = Ok v -> v = wrap32 z.
Proof. unfold chk. intros H; inversion H; reflexivity. Qed.

Lemma chk_range w z v : chk w z = Ok v -> I32 v.
Proof.
  destruct w; intros H.
  - apply chk_true_ok in H. subst. apply wrap32_range.
  - apply chk_false_ok in H. destruct H; subst; assumption.
Qed.

(* ---- division ---- *)
Lemma div_ovf_false x y : div_ovf x y = false <-> ~ (x = i32_min /\ y = -1).
Proof. unfold div_ovf. lia. Qed.

Lemma quot_range x y : I32 x -> y <> 0 -> div_ovf x y = false -> I32 (Z.quot x y).
Proof.
  intros Hx Hy Ho. apply div_ovf_false in Ho.
  unfold I32, i32_min, i32_max in *. nia.
Qed.

(* ceiling division: for y <> 0, div_ceil(x, y) = -floor(-x / y) *)
Lemma div_ceil_spec x y : y <> 0 -> div_ceil_z x y = - ((- x) / y).
Proof.
  intros Hy. unfold div_ceil_z.
  destruct (Z.rem x y =? 0) eqn:Er.
  - nia.
  - destruct (Bool.eqb (x <? 0) (y <? 0)) eqn:Es.
    + destruct (x <? 0) eqn:E1, (y <? 0) eqn:E2; cbn in Es; try discriminate; nia.
    + destruct (x <? 0) eqn:E1, (y <? 0) eqn:E2; cbn in Es; try discriminate; nia.
Qed.

Lemma div_ceil_abs x y : y <> 0 -> Z.abs (div_ceil_z x y) <= Z.abs x.
Proof. intros Hy. rewrite div_ceil_spec by assumption. nia. Qed.

Lemma div_ceil_range x y : I32 x -> y <> 0 -> div_ovf x y = false -> I32 (div_ceil_z x y).
Proof.
  intros Hx Hy Ho. apply div_ovf_false in Ho. rewrite div_ceil_spec by assumption.
  unfold I32, i32_min, i32_max in *. nia.
Qed.

Lemma div_ceil_pos x y : 0 <= x -> 0 < y -> 0 <= div_ceil_z x y <= x.
Proof. intros. rewrite div_ceil_spec by lia. nia. Qed.

Lemma div_ceil_neg_pos x y : x <= 0 -> 0 < y -> x <= div_ceil_z x y <= 0.
Proof. intros. rewrite div_ceil_spec by lia. nia. Qed.

(* ---- results are i32 ---- *)
Lemma evalm_range w s e v : evalm w s e = Ok v -> I32 v.
Proof.
  revert v; induction e; intros v H; cbn [evalm] in H.
  - destruct (in_i32 z) eqn:E; inversion H; subst. now apply in_i32_iff.
  - destruct (s id); [|discriminate]. destruct (in_i32 z) eqn:E; inversion H; subst.
    now apply in_i32_iff.
  - apply bind2_ok in H as (x & y & _ & _ & H). eapply chk_range; eauto.
  - apply bind2_ok in H as (x & y & _ & _ & H). eapply chk_range; eauto.
  - apply bind2_ok in H as (x & y & _ & _ & H). eapply chk_range; eauto.
  - apply bind2_ok in H as (x & y & Ha & Hb & H).
    destruct (y =? 0) eqn:Ey; [discriminate|]. destruct (div_ovf x y) eqn:Eo; [discriminate|].
    inversion H; subst. apply quot_range; eauto. lia.
  - apply bind2_ok in H as (x & y & Ha & Hb & H).
    destruct (y =? 0) eqn:Ey; [discriminate|]. destruct (div_ovf x y) eqn:Eo; [discriminate|].
    inversion H; subst. apply div_ceil_range; eauto. lia.
  - apply bind2_ok in H as (x & y & Ha & Hb & H). inversion H; subst.
    specialize (IHe1 _ Ha). specialize (IHe2 _ Hb). unfold I32 in *. lia.
  - apply bind2_ok in H as (x & y & Ha & Hb & H). inversion H; subst.
    specialize (IHe1 _ Ha). specialize (IHe2 _ Hb). unfold I32 in *. lia.
  - apply bind2_ok in H as (x & y & Ha & Hb & H). inversion H; subst.
    specialize (IHe1 _ Ha). specialize (IHe2 _ Hb). unfold I32 in *. lia.
  - destruct (evalm w s e) eqn:E; try discriminate. eapply chk_range; eauto.
Qed.

(* An expression that evaluates without overflow evaluates to the same value with wrapping
   arithmetic (the release build agrees with the overflow-checked build whenever the latter
   does not trap). *)
Lemma eval_evalw s e v : eval s e = Ok v -> evalw s e = Ok v.
Proof.
  unfold eval, evalw. revert v; induction e; intros v H; cbn [evalm] in *; try assumption.
  all: try (apply bind2_ok in H as (x & y & Ha & Hb & H);
            rewrite (IHe1 _ Ha), (IHe2 _ Hb); cbn [bind2]; try assumption;
            apply chk_false_ok in H as [-> Hr]; unfold chk; now rewrite wrap32_id).
  destruct (evalm false s e) eqn:E; try discriminate.
  rewrite (IHe _ eq_refl). apply chk_false_ok in H as [-> Hr]. unfold chk. now rewrite wrap32_id.
Qed.
