(* Model of rten-shape-inference/src/sym_expr.rs (SymExpr): evaluation, PartialEq, canonicalize,
   simplify_canonical, remove_common_factors, range, is_positive.  Executable definitions only.

   STABLE NAMES (imported by the shape-inference group, C10):
     expr  (constructors Value Var Add Sub Mul Div DivCeil Max Min Broadcast Neg)
           [Var id pos]: symbol number [id : N] (harness: name "a" = 0, "b" = 1, ...; the map is
           order preserving, so [str::cmp] on names is [N.compare] on ids), [pos] = declared >= 0.
     res   (Ok z | EDivZero | EMissing | EOvf | EBcast | EPos)   outcome of an evaluation
           (EBcast, EPos: violated preconditions; only produced by the proof-internal evalR)
     env := N -> option Z,  env_of_list : list (N * Z) -> env
     evalm (w : bool) : env -> expr -> res   SymExpr::eval; w = true: release build (i32 wraps,
           EOvf = the `MIN / -1` panic), w = false: overflow-checked build (EOvf = overflow panic)
     eval := evalm false,  evalw := evalm true
     bcast_ok, pos_ok : env -> expr -> bool  preconditions (Broadcast operands, positive symbols)
     expr_eqb                                SymExpr's PartialEq (commutative, ignores [pos])
     canon                                   SymExpr::canonicalize
     simplify : expr -> expr                 SymExpr::simplify of the fixed code (never panics)
     simplify_gen : cfg -> expr -> option expr   same, parameterised by the code version
           (cfg_fixed | cfg_old w); None = panic
     range : expr -> Z * Z,  is_positive : expr -> bool      (range_old: before the F5 fix)
     wrap32, div_ceil_z, i32_min, i32_max (Prelude), in_i32 (Prelude)                         *)
From RV Require Import Prelude.
Open Scope Z_scope.

(* ------------------------------------------------------------------ syntax *)
Inductive expr :=
| Value (z : Z)
| Var (id : N) (pos : bool)
| Add (a b : expr)
| Sub (a b : expr)
| Mul (a b : expr)
| Div (a b : expr)
| DivCeil (a b : expr)
| Max (a b : expr)
| Min (a b : expr)
| Broadcast (a b : expr)
| Neg (a : expr).

Inductive res := Ok (z : Z) | EDivZero | EMissing | EOvf | EBcast | EPos.

Definition env := N -> option Z.
Fixpoint env_of_list (l : list (N * Z)) : env :=
  fun id => match l with
            | [] => None
            | (k, v) :: r => if N.eqb k id then Some v else env_of_list r id
            end.

(* ------------------------------------------------------------ i32 arithmetic *)
Definition wrap32 (z : Z) : Z := (z + 2147483648) mod 4294967296 - 2147483648.

(* copy of i32::div_ceil in sym_expr.rs: d = lhs / rhs, r = lhs % rhs (truncating);
   correction = 1 + ((lhs ^ rhs) >> 31) is 1 when the signs agree and 0 otherwise *)
Definition div_ceil_z (x y : Z) : Z :=
  let d := Z.quot x y in
  let r := Z.rem x y in
  if r =? 0 then d
  else if Bool.eqb (x <? 0) (y <? 0) then d + 1 else d.

(* result of an i32 operation whose exact value is z *)
Definition chk (w : bool) (z : Z) : res :=
  if w then Ok (wrap32 z) else if in_i32 z then Ok z else EOvf.

Definition div_ovf (x y : Z) : bool := (x =? i32_min) && (y =? -1).

Definition bind2 (a b : res) (f : Z -> Z -> res) : res :=
  match a with
  | Ok x => match b with Ok y => f x y | err => err end
  | err => err
  end.

(* ------------------------------------------------------------------- eval *)
Fixpoint evalm (w : bool) (s : env) (e : expr) : res :=
  match e with
  | Value z => if in_i32 z then Ok z else EOvf
  | Var id _ => match s id with
                | Some v => if in_i32 v then Ok v else EOvf
                | None => EMissing
                end
  | Neg a => match evalm w s a with Ok x => chk w (- x) | err => err end
  | Add a b => bind2 (evalm w s a) (evalm w s b) (fun x y => chk w (x + y))
  | Sub a b => bind2 (evalm w s a) (evalm w s b) (fun x y => chk w (x - y))
  | Mul a b => bind2 (evalm w s a) (evalm w s b) (fun x y => chk w (x * y))
  | Div a b => bind2 (evalm w s a) (evalm w s b) (fun x y =>
      if y =? 0 then EDivZero else if div_ovf x y then EOvf else Ok (Z.quot x y))
  | DivCeil a b => bind2 (evalm w s a) (evalm w s b) (fun x y =>
      if y =? 0 then EDivZero else if div_ovf x y then EOvf else Ok (div_ceil_z x y))
  | Max a b => bind2 (evalm w s a) (evalm w s b) (fun x y => Ok (Z.max x y))
  | Min a b => bind2 (evalm w s a) (evalm w s b) (fun x y => Ok (Z.min x y))
  | Broadcast a b => bind2 (evalm w s a) (evalm w s b) (fun x y => Ok (Z.max x y))
  end.
Definition eval := evalm false.
Definition evalw := evalm true.

(* The documented precondition of Broadcast ("both expressions are positive and either equal
   or 1"): both operands >= 0 and equal, or one is 1 and the other is >= 1.  (0 against 1 is
   excluded: eval gives max = 1 there while the rewrite Broadcast(0, y) => 0 gives 0.) *)
Definition bc_pair_ok (x y : Z) : bool :=
  (0 <=? x) && (0 <=? y) && ((x =? y) || ((x =? 1) && (1 <=? y)) || ((y =? 1) && (1 <=? x))).

Fixpoint bcast_ok (s : env) (e : expr) : bool :=
  match e with
  | Value _ | Var _ _ => true
  | Neg a => bcast_ok s a
  | Broadcast a b =>
      bcast_ok s a && bcast_ok s b &&
      match eval s a, eval s b with Ok x, Ok y => bc_pair_ok x y | _, _ => true end
  | Add a b | Sub a b | Mul a b | Div a b | DivCeil a b | Max a b | Min a b =>
      bcast_ok s a && bcast_ok s b
  end.

(* symbols declared positive are assigned non-negative values *)
Fixpoint pos_ok (s : env) (e : expr) : bool :=
  match e with
  | Value _ => true
  | Var id p => if p then match s id with Some v => 0 <=? v | None => true end else true
  | Neg a => pos_ok s a
  | Add a b | Sub a b | Mul a b | Div a b | DivCeil a b | Max a b | Min a b | Broadcast a b =>
      pos_ok s a && pos_ok s b
  end.

(* ------------------------------------------------------------- PartialEq *)
Fixpoint expr_eqb (a b : expr) : bool :=
  match a, b with
  | Value x, Value y => x =? y
  | Var i _, Var j _ => N.eqb i j
  | Neg x, Neg y => expr_eqb x y
  | Add a1 a2, Add b1 b2 | Mul a1 a2, Mul b1 b2 | Max a1 a2, Max b1 b2
  | Min a1 a2, Min b1 b2 | Broadcast a1 a2, Broadcast b1 b2 =>
      (expr_eqb a1 b1 && expr_eqb a2 b2) || (expr_eqb a1 b2 && expr_eqb a2 b1)
  | Sub a1 a2, Sub b1 b2 | Div a1 a2, Div b1 b2 | DivCeil a1 a2, DivCeil b1 b2 =>
      expr_eqb a1 b1 && expr_eqb a2 b2
  | _, _ => false
  end.

(* strict structural equality (used only to compare model and implementation outputs) *)
Fixpoint expr_same (a b : expr) : bool :=
  match a, b with
  | Value x, Value y => x =? y
  | Var i p, Var j q => N.eqb i j && Bool.eqb p q
  | Neg x, Neg y => expr_same x y
  | Add a1 a2, Add b1 b2 | Mul a1 a2, Mul b1 b2 | Max a1 a2, Max b1 b2
  | Min a1 a2, Min b1 b2 | Broadcast a1 a2, Broadcast b1 b2
  | Sub a1 a2, Sub b1 b2 | Div a1 a2, Div b1 b2 | DivCeil a1 a2, DivCeil b1 b2 =>
      expr_same a1 b1 && expr_same a2 b2
  | _, _ => false
  end.

(* -------------------------------------------------- cmp_values_first, sort *)
Definition is_value (e : expr) : bool := match e with Value _ => true | _ => false end.
Fixpoint name (e : expr) : option N :=
  match e with Var i _ => Some i | Neg x => name x | _ => None end.

Definition cmp_values_first (a b : expr) : comparison :=
  match is_value a, is_value b with
  | true, false => Lt
  | false, true => Gt
  | _, _ => match name a, name b with
            | Some x, Some y => N.compare x y
            | Some _, None => Lt
            | None, Some _ => Gt
            | None, None => Eq
            end
  end.

(* stable insertion sort = Vec::sort_by for a consistent comparator *)
Fixpoint insert (x : expr) (l : list expr) : list expr :=
  match l with
  | [] => [x]
  | y :: r => match cmp_values_first x y with
              | Gt => y :: insert x r
              | _ => x :: l
              end
  end.
Fixpoint isort (l : list expr) : list expr :=
  match l with [] => [] | x :: r => insert x (isort r) end.

(* ------------------------------------------------------------ canonicalize *)
Definition is_negation_of (a b : expr) : bool :=
  (match b with Neg y => expr_eqb a y | _ => false end) ||
  (match a with Neg x => expr_eqb x b | _ => false end).

Fixpoint rm_adj_eq (l : list expr) : list expr :=
  match l with
  | x :: ((y :: _) as r) => if expr_eqb x y then rm_adj_eq r else x :: rm_adj_eq r
  | _ => l
  end.

Fixpoint rm_adj_opp (l : list expr) : list expr :=
  match l with
  | x :: ((y :: r') as r) => if is_negation_of x y then rm_adj_opp r' else x :: rm_adj_opp r
  | _ => l
  end.

Inductive kind := KAdd | KMul | KMax | KMin | KBc.
Definition kind_eqb (a b : kind) : bool :=
  match a, b with
  | KAdd, KAdd | KMul, KMul | KMax, KMax | KMin, KMin | KBc, KBc => true
  | _, _ => false
  end.
Definition kind_of (e : expr) : option kind :=
  match e with
  | Add _ _ => Some KAdd | Mul _ _ => Some KMul | Max _ _ => Some KMax
  | Min _ _ => Some KMin | Broadcast _ _ => Some KBc | _ => None
  end.
Definition mk (k : kind) (a b : expr) : expr :=
  match k with
  | KAdd => Add a b | KMul => Mul a b | KMax => Max a b | KMin => Min a b | KBc => Broadcast a b
  end.
Definition default_of (k : kind) : expr :=
  match k with
  | KAdd => Value 0 | KMul => Value 1 | KMax => Value i32_min | KMin => Value i32_max
  | KBc => Value 1
  end.
Definition cleanup (k : kind) (l : list expr) : list expr :=
  match k with KAdd => rm_adj_opp l | KMul => l | KMax | KMin | KBc => rm_adj_eq l end.

(* Iterator::reduce *)
Definition reduce (f : expr -> expr -> expr) (d : expr) (l : list expr) : expr :=
  match l with [] => d | x :: r => fold_left f r x end.

(* reassociate_terms after collect_terms *)
Definition finish (k : kind) (ts : list expr) : expr :=
  reduce (mk k) (default_of k) (cleanup k (isort ts)).

Definition neg_fold (c : expr) : expr :=
  match c with
  | Value x => if x =? i32_min then Neg c else Value (- x)
  | _ => Neg c
  end.

(* [r] = (canonical form of e, terms collected from e when e is a chain node);
   what e contributes to the term list of a parent chain of kind k *)
Definition sub_terms (k : kind) (e : expr) (r : expr * list expr) : list expr :=
  match kind_of e with
  | Some k' => if kind_eqb k k' then snd r else [fst r]
  | None => [fst r]
  end.
Definition chain (k : kind) (a : expr) (ra : expr * list expr) (b : expr) (rb : expr * list expr)
  : expr * list expr :=
  let ts := sub_terms k a ra ++ sub_terms k b rb in (finish k ts, ts).

(* [on_sub lc rc]: what canonicalize does with Sub once both operands are canonical *)
Fixpoint canon_aux (on_sub : expr -> expr -> expr) (e : expr) : expr * list expr :=
  match e with
  | Value _ | Var _ _ => (e, [])
  | Neg a => (neg_fold (fst (canon_aux on_sub a)), [])
  | Add a b => chain KAdd a (canon_aux on_sub a) b (canon_aux on_sub b)
  | Mul a b => chain KMul a (canon_aux on_sub a) b (canon_aux on_sub b)
  | Max a b => chain KMax a (canon_aux on_sub a) b (canon_aux on_sub b)
  | Min a b => chain KMin a (canon_aux on_sub a) b (canon_aux on_sub b)
  | Broadcast a b => chain KBc a (canon_aux on_sub a) b (canon_aux on_sub b)
  | Sub a b => (on_sub (fst (canon_aux on_sub a)) (fst (canon_aux on_sub b)), [])
  | Div a b => (Div (fst (canon_aux on_sub a)) (fst (canon_aux on_sub b)), [])
  | DivCeil a b => (DivCeil (fst (canon_aux on_sub a)) (fst (canon_aux on_sub b)), [])
  end.

(* `Self::Add(lhs, -rhs).canonicalize()` is applied to a term built from canonical operands;
   canonical forms contain no Sub (lemma canon_sub_free), so the Sub branch of this second
   pass is dead code and is modelled as the identity. *)
Definition recanon (e : expr) : expr := fst (canon_aux (fun l r => Sub l r) e).
Definition canon_sub (lc rc : expr) : expr := recanon (Add lc (Neg rc)).
Definition canon (e : expr) : expr := fst (canon_aux canon_sub e).

Fixpoint sub_free (e : expr) : bool :=
  match e with
  | Value _ | Var _ _ => true
  | Sub _ _ => false
  | Neg a => sub_free a
  | Add a b | Mul a b | Div a b | DivCeil a b | Max a b | Min a b | Broadcast a b =>
      sub_free a && sub_free b
  end.

(* SymExpr::is_positive *)
Fixpoint is_positive (e : expr) : bool :=
  match e with
  | Value x => 0 <=? x
  | Var _ p => p
  | Neg _ => false
  | Sub _ _ => false
  | Add a b | Mul a b | Div a b | DivCeil a b | Min a b => is_positive a && is_positive b
  | Max a b => is_positive a || is_positive b
  | Broadcast _ _ => true
  end.

(* ---------------------------------------------------- remove_common_factors *)
Fixpoint collect_mul (e : expr) : list expr :=
  match e with Mul a b => collect_mul a ++ collect_mul b | _ => [e] end.

Fixpoint remove_first (t : expr) (rs : list expr) : option (list expr) :=
  match rs with
  | [] => None
  | u :: r => if expr_eqb t u then Some r
              else match remove_first t r with Some r' => Some (u :: r') | None => None end
  end.

(* [pg]: only factors known to be positive are cancelled (fix F20) *)
Fixpoint rcf_loop (pg : bool) (ls rs : list expr) : list expr * list expr :=
  match ls with
  | [] => ([], rs)
  | t :: ls' => match (if pg && negb (is_positive t) then None else remove_first t rs) with
                | Some rs' => rcf_loop pg ls' rs'
                | None => let p := rcf_loop pg ls' rs in (t :: fst p, snd p)
                end
  end.

Fixpoint first_const (l : list expr) : option Z :=
  match l with
  | [] => None
  | Value z :: _ => Some z
  | _ :: r => first_const r
  end.
Fixpoint set_first_const (z : Z) (l : list expr) : list expr :=
  match l with
  | [] => []
  | Value _ :: r => Value z :: r
  | t :: r => t :: set_first_const z r
  end.

Definition gcd_step (ls rs : list expr) : list expr * list expr :=
  match first_const ls, first_const rs with
  | Some lc, Some rc =>
      let g := Z.gcd lc rc in
      if in_i32 g && (1 <? g) && negb (rc =? 0)
      then (set_first_const (Z.quot lc g) ls, set_first_const (Z.quot rc g) rs)
      else (ls, rs)
  | _, _ => (ls, rs)
  end.

Definition remove_common_factors (pg : bool) (l r : expr) : expr * expr :=
  let p := rcf_loop pg (collect_mul l) (collect_mul r) in
  let q := gcd_step (fst p) (snd p) in
  (reduce Mul (Value 1) (fst q), reduce Mul (Value 1) (snd q)).

(* ------------------------------------------------------- simplify_canonical *)
(* How constants are folded: the code before the F17 fix used plain i32 operators (release:
   wrap, debug: panic); the fixed code uses checked operators and skips the rewrite. *)
Inductive fmode := FWrap | FTrap | FChecked.
Inductive fres := FV (z : Z) | FSkip | FPanic.
Definition fold (m : fmode) (z : Z) : fres :=
  match m with
  | FWrap => FV (wrap32 z)
  | FTrap => if in_i32 z then FV z else FPanic
  | FChecked => if in_i32 z then FV z else FSkip
  end.
(* x / y and div_ceil(x, y) for y <> 0: `MIN / -1` panics in every build of the old code *)
Definition fold_div (m : fmode) (x y : Z) (q : Z) : fres :=
  if div_ovf x y then match m with FChecked => FSkip | _ => FPanic end else FV q.

Record cfg := { fm : fmode;
                guard : bool (* F18 fix: nested divisions *);
                posg : bool  (* F20 fix: cancel only positive common factors *) }.
Definition cfg_fixed : cfg := {| fm := FChecked; guard := true; posg := true |}.
Definition cfg_old (w : bool) : cfg :=
  {| fm := if w then FWrap else FTrap; guard := false; posg := false |}.

Definition is_val (e : expr) : option Z := match e with Value z => Some z | _ => None end.
Definition is_const (e : expr) (c : Z) : bool := match e with Value z => z =? c | _ => false end.

Definition simp_neg (m : fmode) (x : expr) : option expr :=
  match x with
  | Value v => match fold m (- v) with
               | FV z => Some (Value z) | FSkip => Some (Neg x) | FPanic => None
               end
  | Neg inner => Some inner
  | _ => Some (Neg x)
  end.

Definition simp_add (m : fmode) (l r : expr) : option expr :=
  if is_const l 0 then Some r
  else if is_const r 0 then Some l
  else match is_val l, is_val r with
       | Some x, Some y => match fold m (x + y) with
                           | FV z => Some (Value z) | FSkip => Some (Add l r) | FPanic => None
                           end
       | _, _ => match r with
                 | Neg r' => if expr_eqb l r' then Some (Value 0) else Some (Add l r)
                 | _ => Some (Add l r)
                 end
       end.

Definition simp_sub (m : fmode) (l r : expr) : option expr :=
  if is_const r 0 then Some l
  else
    let rest := if expr_eqb l r then Value 0 else Sub l r in
    match is_val l, is_val r with
    | Some x, Some y => match fold m (x - y) with
                        | FV z => Some (Value z) | FSkip => Some rest | FPanic => None
                        end
    | _, _ => Some rest
    end.

Definition simp_mul (m : fmode) (l r : expr) : option expr :=
  if is_const l 1 then Some r
  else if is_const r 1 then Some l
  else match is_val l, is_val r with
       | Some x, Some y => match fold m (x * y) with
                           | FV z => Some (Value z) | FSkip => Some (Mul l r) | FPanic => None
                           end
       | _, _ => Some (Mul l r)
       end.

(* (Div(x, c1), c2) arm *)
Definition nest_div (c : cfg) (x c1 c2 : expr) : option expr :=
  match is_val c1, is_val c2 with
  | Some a, Some b =>
      if negb (a =? 0) && negb (b =? 0)
      then match fold (fm c) (a * b) with
           | FV z => Some (Div x (Value z))
           | FSkip => Some (Div (Div x c1) c2)
           | FPanic => None
           end
      else Some (Div x (Mul c1 c2))
  | _, _ => if guard c then Some (Div (Div x c1) c2) else Some (Div x (Mul c1 c2))
  end.

Definition simp_div (c : cfg) (l0 r0 : expr) : option expr :=
  let p := remove_common_factors (posg c) l0 r0 in
  let l := fst p in
  let r := snd p in
  if is_const r 1 then Some l
  else match is_val l, is_val r with
       | Some x, Some y =>
           if y =? 0 then Some (Div l r)
           else match fold_div (fm c) x y (Z.quot x y) with
                | FV z => Some (Value z) | FSkip => Some (Div l r) | FPanic => None
                end
       | _, _ => match l with
                 | Div x c1 => nest_div c x c1 r
                 | _ => Some (Div l r)
                 end
       end.

(* (DivCeil(x, c1), c2) arm *)
Definition nest_dc (c : cfg) (x c1 c2 : expr) : option expr :=
  match is_val c1, is_val c2 with
  | Some a, Some b =>
      if (0 <? a) && (0 <? b)
      then match fold (fm c) (a * b) with
           | FV z => Some (DivCeil x (Value z))
           | FSkip => Some (DivCeil (DivCeil x c1) c2)
           | FPanic => None
           end
      else if guard c
           then (if (0 <? b) && in_i32 (a * b) then Some (DivCeil x (Mul c1 c2))
                 else Some (DivCeil (DivCeil x c1) c2))
           else Some (DivCeil x (Mul c1 c2))
  | _, _ => if guard c then Some (DivCeil (DivCeil x c1) c2) else Some (DivCeil x (Mul c1 c2))
  end.

Definition simp_divceil (c : cfg) (l r : expr) : option expr :=
  if is_const r 1 then Some l
  else
    let rest := if expr_eqb l r then Some (Value 1)
                else match l with
                     | DivCeil x c1 => nest_dc c x c1 r
                     | _ => Some (DivCeil l r)
                     end in
    match is_val l, is_val r with
    | Some x, Some y =>
        if y =? 0 then rest
        else match fold_div (fm c) x y (div_ceil_z x y) with
             | FV z => Some (Value z) | FSkip => rest | FPanic => None
             end
    | _, _ => rest
    end.

Definition simp_max (l r : expr) : expr :=
  if expr_eqb l r then l
  else match is_val l, is_val r with
       | Some x, Some y => Value (Z.max x y)
       | _, _ => Max l r
       end.
Definition simp_min (l r : expr) : expr :=
  if expr_eqb l r then l
  else match is_val l, is_val r with
       | Some x, Some y => Value (Z.min x y)
       | _, _ => Min l r
       end.

Definition simp_bc (l r : expr) : expr :=
  match is_val l, is_val r with
  | Some x, Some y =>
      if x =? y then l else if x =? 1 then r else if y =? 1 then l else l
  | Some x, None => if x =? 1 then r else l
  | None, Some y => if y =? 1 then l else r
  | None, None => if expr_eqb l r then l else Broadcast l r
  end.

Definition obind2 (a b : option expr) (f : expr -> expr -> option expr) : option expr :=
  match a, b with Some x, Some y => f x y | _, _ => None end.

Fixpoint simp_canon (c : cfg) (e : expr) : option expr :=
  match e with
  | Value _ | Var _ _ => Some e
  | Neg a => match simp_canon c a with Some x => simp_neg (fm c) x | None => None end
  | Add a b => obind2 (simp_canon c a) (simp_canon c b) (simp_add (fm c))
  | Sub a b => obind2 (simp_canon c a) (simp_canon c b) (simp_sub (fm c))
  | Mul a b => obind2 (simp_canon c a) (simp_canon c b) (simp_mul (fm c))
  | Div a b => obind2 (simp_canon c a) (simp_canon c b) (simp_div c)
  | DivCeil a b => obind2 (simp_canon c a) (simp_canon c b) (simp_divceil c)
  | Max a b => obind2 (simp_canon c a) (simp_canon c b) (fun x y => Some (simp_max x y))
  | Min a b => obind2 (simp_canon c a) (simp_canon c b) (fun x y => Some (simp_min x y))
  | Broadcast a b => obind2 (simp_canon c a) (simp_canon c b) (fun x y => Some (simp_bc x y))
  end.

Definition simplify_gen (c : cfg) (e : expr) : option expr := simp_canon c (canon e).

(* The fixed code never panics (theorem simplify_total); [simplify] is the total version. *)
Definition simplify (e : expr) : expr :=
  match simplify_gen cfg_fixed e with Some x => x | None => e end.

(* ------------------------------------------------------ range, is_positive *)
Definition clamp32 (z : Z) : Z := Z.max i32_min (Z.min i32_max z).

Definition var_range (p : bool) : Z * Z := if p then (0, i32_max) else (i32_min, i32_max).
Definition hull (a b : Z * Z) : Z * Z := (Z.min (fst a) (fst b), Z.max (snd a) (snd b)).
Definition bc_range (a b : Z * Z) : Z * Z :=
  (Z.max (Z.min (fst a) (fst b)) 0, Z.max (Z.max (snd a) (snd b)) 0).

(* before the F5 fix *)
Fixpoint range_old (e : expr) : Z * Z :=
  match e with
  | Value x => (x, x)
  | Var _ p => var_range p
  | Neg a => if is_positive a then (i32_min, -1) else (i32_min, i32_max)
  | Add a b | Mul a b | Max a b | Min a b | Div a b | DivCeil a b => hull (range_old a) (range_old b)
  | Sub _ _ => (i32_min, i32_max)
  | Broadcast a b => bc_range (range_old a) (range_old b)
  end.

Definition min4 (a b c d : Z) : Z := Z.min (Z.min a b) (Z.min c d).
Definition max4 (a b c d : Z) : Z := Z.max (Z.max a b) (Z.max c d).
Definition mul_range (a b : Z * Z) : Z * Z :=
  let p1 := fst a * fst b in let p2 := fst a * snd b in
  let p3 := snd a * fst b in let p4 := snd a * snd b in
  (clamp32 (min4 p1 p2 p3 p4), clamp32 (max4 p1 p2 p3 p4)).
Definition div_range (a b : Z * Z) : Z * Z :=
  if 0 <=? fst b then (Z.min (fst a) 0, Z.max (snd a) 0)
  else let m := Z.max (Z.abs (fst a)) (Z.abs (snd a)) in (clamp32 (- m), clamp32 m).

(* SymExpr::range after the F5 fix *)
Fixpoint range (e : expr) : Z * Z :=
  match e with
  | Value x => (x, x)
  | Var _ p => var_range p
  | Neg a => let r := range a in (clamp32 (- snd r), clamp32 (- fst r))
  | Add a b => let ra := range a in let rb := range b in
               (clamp32 (fst ra + fst rb), clamp32 (snd ra + snd rb))
  | Mul a b => mul_range (range a) (range b)
  | Max a b | Min a b => hull (range a) (range b)
  | Div a b | DivCeil a b => div_range (range a) (range b)
  | Sub _ _ => (i32_min, i32_max)
  | Broadcast a b => bc_range (range a) (range b)
  end.

(* ------------------------------------------------- correspondence cases *)
(* One case = one expression: the implementation's simplify() (None = panic), range(),
   is_positive(), and SymExpr::eval of the original and of the implementation's simplified
   tree under several assignments.  c_w: the harness profile (true = release). *)
Record case := {
  c_w : bool;
  c_e : expr;
  c_simp : option expr;
  c_range : option (Z * Z);
  c_pos : option bool;
  c_evals : list (list (N * Z) * res * res)
}.

Definition res_eqb (a b : res) : bool :=
  match a, b with
  | Ok x, Ok y => x =? y
  | EDivZero, EDivZero | EMissing, EMissing | EOvf, EOvf | EBcast, EBcast | EPos, EPos => true
  | _, _ => false
  end.
Definition oexpr_same (a b : option expr) : bool :=
  match a, b with Some x, Some y => expr_same x y | None, None => true | _, _ => false end.
Definition orange_eqb (a : Z * Z) (b : option (Z * Z)) : bool :=
  match b with Some (lo, hi) => (fst a =? lo) && (snd a =? hi) | None => false end.
Definition obool_eqb (a : bool) (b : option bool) : bool :=
  match b with Some x => Bool.eqb a x | None => false end.

Definition evals_agree (c : case) : bool :=
  forallb (fun t => match t with (l, o, s) =>
     let sg := env_of_list l in
     res_eqb (evalm (c_w c) sg (c_e c)) o &&
     match c_simp c with Some se => res_eqb (evalm (c_w c) sg se) s | None => true end end)
    (c_evals c).

(* the model of the code under check (fixed code) gives the implementation's outputs *)
Definition agree (c : case) : bool :=
  oexpr_same (simplify_gen cfg_fixed (c_e c)) (c_simp c) &&
  orange_eqb (range (c_e c)) (c_range c) &&
  obool_eqb (is_positive (c_e c)) (c_pos c) &&
  evals_agree c.

(* the model of the code before the fixes gives the implementation's outputs (used against
   the unfixed tree while developing, and to validate the model) *)
Definition agree_old (c : case) : bool :=
  oexpr_same (simplify_gen (cfg_old (c_w c)) (c_e c)) (c_simp c) &&
  orange_eqb (range_old (c_e c)) (c_range c) &&
  obool_eqb (is_positive (c_e c)) (c_pos c) &&
  evals_agree c.

(* Property oracle on the IMPLEMENTATION's outputs.  [strict] = the simplified tree must also
   evaluate without intermediate overflow (overflow-checked builds). *)
Definition prop_one (strict : bool) (c : case) (l : list (N * Z)) : bool :=
  let sg := env_of_list l in
  match eval sg (c_e c) with
  | Ok v =>
      if bcast_ok sg (c_e c) && pos_ok sg (c_e c) then
        match c_simp c with
        | Some se => res_eqb (evalm (negb strict) sg se) (Ok v)
        | None => false
        end &&
        match c_range c with Some (lo, hi) => (lo <=? v) && (v <=? hi) | None => false end &&
        match c_pos c with Some true => 0 <=? v | Some false => true | None => false end
      else true
  | _ => true
  end.
Definition prop_gen (strict : bool) (c : case) : bool :=
  match c_simp c with Some _ => true | None => false end &&
  forallb (fun t => prop_one strict c (fst (fst t))) (c_evals c).
Definition prop_ok (c : case) : bool := prop_gen false c.
Definition prop_strict (c : case) : bool := prop_gen true c.

Definition show (c : case) :=
  (simplify_gen cfg_fixed (c_e c), range (c_e c), is_positive (c_e c),
   map (fun t => let sg := env_of_list (fst (fst t)) in
                 (eval sg (c_e c), bcast_ok sg (c_e c), pos_ok sg (c_e c),
                  match c_simp c with Some se => Some (evalw sg se, eval sg se) | None => None end))
       (c_evals c)).
