(* C11 -- Symbolic expression simplification and bounds are sound.
   Only statements; every proof is `exact <lemma>`.

   Reading guide.  [eval] is SymExpr::eval with overflow checks (a debug build; EOvf = panic),
   [evalw] is SymExpr::eval with wrapping i32 arithmetic (a release build).  [simplify],
   [range], [is_positive] model the code after the fixes F5, F17, F18, F20;  [simplify_gen
   (cfg_old w)] and [range_old] model the code before them.  bcast_ok / pos_ok are the two
   preconditions of the property (Broadcast operands equal or 1; symbols declared positive
   are assigned non-negative values). *)
From RV Require Import Prelude.
From SymExpr Require Import SymExprModel SymExpr_base SymExpr_range SymExpr_sem SymExpr_canon
  SymExpr_simp SymExpr_subfree SymExpr_oracle SymExpr_refuted.
Open Scope Z_scope.

(* (1) simplification: if the original evaluates without overflow or division by zero, the
       simplified expression evaluates to the same value (i32 arithmetic of a release build) *)
Theorem C11_simplify_sound : forall s e v,
  eval s e = Ok v -> bcast_ok s e = true -> pos_ok s e = true ->
  evalw s (simplify e) = Ok v.
Proof. exact simplify_sound. Qed.

(* (2) simplify never panics: every constant fold is checked; [None] is the panic outcome *)
Theorem C11_simplify_total : forall e, simplify_gen cfg_fixed e = Some (simplify e).
Proof. exact simplify_gen_simplify. Qed.

(* (3) the reported range contains the value *)
Theorem C11_range_sound : forall s e v,
  eval s e = Ok v -> pos_ok s e = true -> bcast_ok s e = true ->
  fst (range e) <= v <= snd (range e).
Proof. exact range_sound. Qed.

(* (4) an expression reported as non-negative never evaluates to a negative number *)
Theorem C11_is_positive_sound : forall s e v,
  eval s e = Ok v -> pos_ok s e = true -> bcast_ok s e = true ->
  is_positive e = true -> 0 <= v.
Proof. exact is_positive_sound. Qed.

(* (5) the two evaluators agree whenever the checked one succeeds, so (1) also says:
       release-build evaluation of the original and of the simplified expression agree *)
Theorem C11_eval_release_agrees : forall s e v, eval s e = Ok v -> evalw s e = Ok v.
Proof. exact eval_evalw. Qed.

(* (6) the two halves of simplify, over the exact-ring evaluator evalR (see SymExpr_sem.v).
       The per-rule lemmas (simp_add_sound, simp_div_sound, nest_div_sound, nest_dc_sound,
       rcf_sound, rm_adj_opp_sound, ...) are the steps of these two proofs. *)
Theorem C11_canonicalize_sound : forall s e z, evalR s e = Ok z -> evalR s (canon e) = Ok z.
Proof. exact canon_sound. Qed.
Theorem C11_simplify_canonical_sound : forall s e z e',
  evalR s e = Ok z -> simp_canon cfg_fixed e = Some e' -> evalR s e' = Ok z.
Proof. exact simp_canon_sound. Qed.
Theorem C11_evalR_between : forall s e,
  (forall v, eval s e = Ok v -> bcast_ok s e = true -> pos_ok s e = true -> evalR s e = Ok v) /\
  (forall z, evalR s e = Ok z -> evalw s e = Ok (wrap32 z)).
Proof. intros s e. split; [exact (evalR_of_eval s e)|exact (evalw_of_evalR s e)]. Qed.

(* (7) model hygiene: canonical forms contain no Sub, so the Sub branches of the second
       canonicalize pass and of simplify_canonical are dead code *)
Theorem C11_canonical_sub_free : forall e, sub_free (canon e) = true.
Proof. exact canon_sub_free. Qed.

(* (8) the oracle of the correspondence check accepts the model's own outputs, and a rejected
       assignment is a genuine counterexample to (1), (3) or (4) for the implementation's outputs *)
Theorem C11_oracle_accepts_model : forall w e evals,
  prop_ok {| c_w := w; c_e := e; c_simp := Some (simplify e); c_range := Some (range e);
             c_pos := Some (is_positive e); c_evals := evals |} = true.
Proof. exact oracle_accepts_model. Qed.
Theorem C11_oracle_reject_is_counterexample : forall c l,
  prop_one false c l = false ->
  exists v, eval (env_of_list l) (c_e c) = Ok v /\
            bcast_ok (env_of_list l) (c_e c) = true /\ pos_ok (env_of_list l) (c_e c) = true /\
            ((forall se, c_simp c = Some se -> evalw (env_of_list l) se <> Ok v) \/
             (forall lo hi, c_range c = Some (lo, hi) -> ~ (lo <= v <= hi)) \/
             (c_pos c <> Some false /\ ~ (c_pos c = Some true /\ 0 <= v))).
Proof. exact prop_one_false. Qed.

(* ---- the code before the fixes violates the property (findings F5, F17, F18, F20) ---- *)
Theorem C11_F5_range_refuted :
  exists s e v, eval s e = Ok v /\ pos_ok s e = true /\ bcast_ok s e = true /\
                ~ (fst (range_old e) <= v <= snd (range_old e)).
Proof. exact range_old_refuted_neg. Qed.
Theorem C11_F17_fold_refuted :
  exists s e e' v, eval s e = Ok v /\ pos_ok s e = true /\ bcast_ok s e = true /\
                   simplify_gen (cfg_old true) e = Some e' /\ evalw s e' = EDivZero.
Proof. exact simplify_old_fold_refuted. Qed.
Theorem C11_F17_panic_refuted :
  (exists s e v, eval s e = Ok v /\ simplify_gen (cfg_old false) e = None) /\
  (exists e, simplify_gen (cfg_old true) e = None).
Proof. split; [exact simplify_old_panics_debug|exact simplify_old_panics_release]. Qed.
Theorem C11_F18_divceil_nest_refuted :
  exists s e e' v v', eval s e = Ok v /\ pos_ok s e = true /\ bcast_ok s e = true /\
     simplify_gen (cfg_old true) e = Some e' /\ evalw s e' = Ok v' /\ v <> v'.
Proof. exact simplify_old_divceil_nest_refuted. Qed.
Theorem C11_F20_common_factor_refuted :
  exists s e e' v v', eval s e = Ok v /\ pos_ok s e = true /\ bcast_ok s e = true /\
     simplify_gen cfg_f20 e = Some e' /\ evalw s e' = Ok v' /\ v <> v'.
Proof. exact simplify_common_factor_refuted. Qed.

(* ---- known finding F17b about the fixed code: (1) cannot be strengthened to overflow-checked
        evaluation of the simplified expression (re-association moves constants together) ---- *)
Definition C11_simplify_sound_checked_statement : Prop := forall s e v,
  eval s e = Ok v -> bcast_ok s e = true -> pos_ok s e = true -> eval s (simplify e) = Ok v.
Theorem C11_F17b_checked_eval_refuted : ~ C11_simplify_sound_checked_statement.
Proof.
  intros H. destruct simplify_checked_eval_refuted as (s & e & v & E & P & B & O & _).
  rewrite (H s e v E B P) in O. discriminate.
Qed.

(* ---- non-vacuity: the hypotheses are met by non-trivial states, and rewrites fire ---- *)
Example C11_nonvacuous :
  let s := env_of_list [(0%N, 6); (1%N, 4)] in
  let e := Div (Mul (Mul (Var 0 true) (Value 768)) (Add (Var 1 false) (Value 0)))
               (Mul (Value 256) (Var 0 true)) in
  eval s e = Ok 12 /\ bcast_ok s e = true /\ pos_ok s e = true /\
  simplify e = Mul (Value 3) (Var 1 false) /\ evalw s (simplify e) = Ok 12 /\
  range (Neg (Var 0 true)) = (-2147483647, 0) /\
  simplify (Div (Div (Var 0 false) (Value 65536)) (Value 65536))
    = Div (Div (Var 0 false) (Value 65536)) (Value 65536) /\
  simplify (Broadcast (Var 0 true) (Broadcast (Value 10) (Var 0 true))) = Value 10.
Proof. vm_compute. repeat split; reflexivity. Qed.
