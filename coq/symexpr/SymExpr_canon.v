(* Soundness of SymExpr::canonicalize with respect to evalR: term collection, the stable sort,
   remove_adjacent_{equal,opposite}_terms, the re-built chain, Neg folding and the rewriting
   of Sub.  One lemma per step. *)
From RV Require Import Prelude.
From SymExpr Require Import SymExprModel SymExpr_base SymExpr_range SymExpr_sem.
From Coq Require Import ZifyBool Permutation.
Open Scope Z_scope.

Definition ev (s : env) (t : expr) (v : Z) : Prop := evalR s t = Ok v.
Fixpoint sumz (l : list Z) : Z := match l with [] => 0 | x :: r => x + sumz r end.
Fixpoint prodz (l : list Z) : Z := match l with [] => 1 | x :: r => x * prodz r end.

Lemma sumz_perm l l' : Permutation l l' -> sumz l = sumz l'.
Proof. induction 1; cbn [sumz] in *; lia. Qed.
Lemma prodz_perm l l' : Permutation l l' -> prodz l = prodz l'.
Proof. induction 1; cbn [prodz] in *; lia. Qed.
Lemma sumz_app a b : sumz (a ++ b) = sumz a + sumz b.
Proof. induction a; cbn [sumz app] in *; lia. Qed.
Lemma prodz_app a b : prodz (a ++ b) = prodz a * prodz b.
Proof. induction a; cbn [prodz app] in *; [lia|]. rewrite IHa. ring. Qed.

(* ---- the stable sort is a permutation ---- *)
Lemma insert_perm x l : Permutation (insert x l) (x :: l).
Proof.
  induction l as [|y r IH]; cbn [insert]; [reflexivity|].
  destruct (cmp_values_first x y); try reflexivity.
  rewrite IH. apply perm_swap.
Qed.
Lemma isort_perm l : Permutation (isort l) l.
Proof.
  induction l as [|x r IH]; cbn [isort]; [reflexivity|].
  rewrite insert_perm. now constructor.
Qed.

(* ---- is_negation_of: the two values cancel ---- *)
Lemma is_negation_of_sound s a b x y :
  is_negation_of a b = true -> ev s a x -> ev s b y -> x + y = 0.
Proof.
  unfold is_negation_of, ev. intros E Ha Hb. apply orb_prop in E as [E|E].
  - destruct b; try discriminate. apply evalR_neg_inv in Hb as (y' & Hb & ->).
    pose proof (expr_eqb_val _ _ _ _ _ E Ha Hb). lia.
  - destruct a; try discriminate. apply evalR_neg_inv in Ha as (x' & Ha & ->).
    pose proof (expr_eqb_val _ _ _ _ _ E Ha Hb). lia.
Qed.

(* ---- remove_adjacent_opposite_terms keeps the sum ---- *)
Lemma rm_adj_opp_sound s : forall n ts vs, (length ts <= n)%nat ->
  Forall2 (ev s) ts vs ->
  exists vs', Forall2 (ev s) (rm_adj_opp ts) vs' /\ sumz vs' = sumz vs.
Proof.
  induction n; intros ts vs Hn H.
  - destruct ts; [|cbn in Hn; lia]. inversion H; subst. exists []. split; [constructor|reflexivity].
  - destruct ts as [|x [|y r']].
    + inversion H; subst. exists []. split; [constructor|reflexivity].
    + exists vs. split; [exact H|reflexivity].
    + inversion H as [|? vx ? vs1 Hx H1]; subst. inversion H1 as [|? vy ? vs2 Hy H2]; subst.
      cbn [rm_adj_opp]. destruct (is_negation_of x y) eqn:E.
      * destruct (IHn r' vs2 ltac:(cbn in Hn; lia) H2) as (vs' & Hv & Hs).
        exists vs'. split; [exact Hv|].
        pose proof (is_negation_of_sound _ _ _ _ _ E Hx Hy). cbn [sumz] in *. lia.
      * destruct (IHn (y :: r') (vy :: vs2) ltac:(cbn in *; lia) H1) as (vs' & Hv & Hs).
        exists (vx :: vs'). split; [constructor; assumption|]. cbn [sumz] in *. lia.
Qed.

(* ---- remove_adjacent_equal_terms keeps the set of values ---- *)
Lemma rm_adj_eq_sound s : forall ts vs,
  Forall2 (ev s) ts vs ->
  exists vs', Forall2 (ev s) (rm_adj_eq ts) vs' /\ (forall v, In v vs' <-> In v vs).
Proof.
  induction ts as [|x r IH]; intros vs H.
  - inversion H; subst. exists []. split; [constructor|tauto].
  - inversion H as [|? vx ? vs1 Hx H1]; subst. destruct r as [|y r'].
    + exists (vx :: vs1). split; [exact H|tauto].
    + cbn [rm_adj_eq]. destruct (IH _ H1) as (vs' & Hv & Hs).
      destruct (expr_eqb x y) eqn:E.
      * exists vs'. split; [exact Hv|]. intros v. rewrite Hs.
        inversion H1 as [|? vy ? vs2 Hy H2]; subst.
        pose proof (expr_eqb_val _ _ _ _ _ E Hx Hy). subst. cbn [In]. tauto.
      * exists (vx :: vs'). split; [constructor; assumption|]. intros v. cbn [In]. rewrite Hs. tauto.
Qed.

(* ---- chains ---- *)
Definition bc_leaf (v m : Z) : Prop := 0 <= v /\ (v = m \/ (v = 1 /\ 1 <= m)).

Definition chain_sem (k : kind) (vs : list Z) (z : Z) : Prop :=
  match k with
  | KAdd => z = sumz vs
  | KMul => z = prodz vs
  | KMax => In z vs /\ forall v, In v vs -> I32 v /\ v <= z
  | KMin => In z vs /\ forall v, In v vs -> I32 v /\ z <= v
  | KBc => In z vs /\ forall v, In v vs -> I32 v /\ bc_leaf v z
  end.

Definition opz (k : kind) (x y : Z) : Z :=
  match k with
  | KAdd => x + y | KMul => x * y | KMax => Z.max x y | KMin => Z.min x y | KBc => Z.max x y
  end.
Definition leaf_ok (k : kind) (v : Z) : Prop :=
  match k with
  | KAdd | KMul => True
  | KMax | KMin => I32 v
  | KBc => I32 v /\ 0 <= v
  end.
Definition node_ok (k : kind) (x y : Z) : Prop :=
  match k with KBc => bc_pair_ok x y = true | _ => True end.

Lemma node_inv s k a b z :
  evalR s (mk k a b) = Ok z ->
  exists x y, evalR s a = Ok x /\ evalR s b = Ok y /\ leaf_ok k x /\ leaf_ok k y /\
              node_ok k x y /\ z = opz k x y.
Proof.
  destruct k; cbn [mk leaf_ok node_ok opz]; intros H.
  - apply evalR_add_inv in H as (x & y & Ha & Hb & ->). exists x, y. auto 10.
  - apply evalR_mul_inv in H as (x & y & Ha & Hb & ->). exists x, y. auto 10.
  - apply evalR_max_inv in H as (x & y & Ha & Hb & Hx & Hy & ->). exists x, y. auto 10.
  - apply evalR_min_inv in H as (x & y & Ha & Hb & Hx & Hy & ->). exists x, y. auto 10.
  - apply evalR_bc_inv in H as (x & y & Ha & Hb & Hx & Hy & Hp & ->). exists x, y.
    pose proof Hp as Hp'. apply bc_pair_ok_spec in Hp'.
    split; [assumption|]. split; [assumption|]. split; [split; [assumption|lia]|].
    split; [split; [assumption|lia]|]. split; [assumption|reflexivity].
Qed.

Lemma chain_sem_single k v : leaf_ok k v -> chain_sem k [v] v.
Proof.
  destruct k; cbn [leaf_ok chain_sem sumz prodz In]; intros H; try lia.
  - split; [tauto|]. intros w [<-|[]]. split; [assumption|lia].
  - split; [tauto|]. intros w [<-|[]]. split; [assumption|lia].
  - split; [tauto|]. intros w [<-|[]]. unfold bc_leaf. split; [tauto|lia].
Qed.

Lemma chain_sem_app k va vb x y :
  chain_sem k va x -> chain_sem k vb y -> node_ok k x y -> chain_sem k (va ++ vb) (opz k x y).
Proof.
  destruct k; cbn [chain_sem node_ok opz].
  - intros -> -> _. now rewrite sumz_app.
  - intros -> -> _. now rewrite prodz_app.
  - intros [Ia Ha] [Ib Hb] _. split.
    + apply in_or_app. destruct (Z.max_spec x y) as [[_ ->]|[_ ->]]; auto.
    + intros v Hv. apply in_app_or in Hv as [Hv|Hv]; [apply Ha in Hv|apply Hb in Hv]; split; try tauto; lia.
  - intros [Ia Ha] [Ib Hb] _. split.
    + apply in_or_app. destruct (Z.min_spec x y) as [[_ ->]|[_ ->]]; auto.
    + intros v Hv. apply in_app_or in Hv as [Hv|Hv]; [apply Ha in Hv|apply Hb in Hv]; split; try tauto; lia.
  - intros [Ia Ha] [Ib Hb] Hp. apply bc_pair_ok_spec in Hp. split.
    + apply in_or_app. destruct (Z.max_spec x y) as [[_ ->]|[_ ->]]; auto.
    + intros v Hv. unfold bc_leaf in *.
      apply in_app_or in Hv as [Hv|Hv]; [apply Ha in Hv|apply Hb in Hv]; split; try tauto; lia.
Qed.

Lemma chain_sem_perm k vs vs' z : Permutation vs vs' -> chain_sem k vs z -> chain_sem k vs' z.
Proof.
  intros P. destruct k; cbn [chain_sem].
  - intros ->. now apply sumz_perm.
  - intros ->. now apply prodz_perm.
  - intros [I H]. split; [eapply Permutation_in; eauto|].
    intros v Hv. apply H. eapply Permutation_in; [symmetry; exact P|exact Hv].
  - intros [I H]. split; [eapply Permutation_in; eauto|].
    intros v Hv. apply H. eapply Permutation_in; [symmetry; exact P|exact Hv].
  - intros [I H]. split; [eapply Permutation_in; eauto|].
    intros v Hv. apply H. eapply Permutation_in; [symmetry; exact P|exact Hv].
Qed.

Lemma cleanup_sound s k ts vs z :
  Forall2 (ev s) ts vs -> chain_sem k vs z ->
  exists vs', Forall2 (ev s) (cleanup k ts) vs' /\ chain_sem k vs' z.
Proof.
  intros H C. destruct k; cbn [cleanup chain_sem] in *.
  - destruct (rm_adj_opp_sound s (length ts) ts vs (le_n _) H) as (vs' & Hv & Hs).
    exists vs'. split; [exact Hv|lia].
  - exists vs. auto.
  - destruct (rm_adj_eq_sound s ts vs H) as (vs' & Hv & Hs). exists vs'. split; [exact Hv|].
    destruct C as [I Hc]. split; [now apply Hs|]. intros v Hin. apply Hc. now apply Hs.
  - destruct (rm_adj_eq_sound s ts vs H) as (vs' & Hv & Hs). exists vs'. split; [exact Hv|].
    destruct C as [I Hc]. split; [now apply Hs|]. intros v Hin. apply Hc. now apply Hs.
  - destruct (rm_adj_eq_sound s ts vs H) as (vs' & Hv & Hs). exists vs'. split; [exact Hv|].
    destruct C as [I Hc]. split; [now apply Hs|]. intros v Hin. apply Hc. now apply Hs.
Qed.

(* ---- Iterator::reduce over the cleaned-up term list ---- *)
Lemma fold_add_sound s : forall r vr x vx,
  ev s x vx -> Forall2 (ev s) r vr -> ev s (fold_left Add r x) (vx + sumz vr).
Proof.
  induction r as [|t r IH]; intros vr x vx Hx H; inversion H; subst; cbn [fold_left sumz].
  - unfold ev in *. now rewrite Z.add_0_r.
  - match goal with Ht : ev s t ?v, Hr : Forall2 _ r ?l |- _ =>
      specialize (IH l (Add x t) (vx + v) (evalR_add _ _ _ _ _ Hx Ht) Hr) end.
    unfold ev in *. rewrite IH. f_equal. lia.
Qed.
Lemma fold_mul_sound s : forall r vr x vx,
  ev s x vx -> Forall2 (ev s) r vr -> ev s (fold_left Mul r x) (vx * prodz vr).
Proof.
  induction r as [|t r IH]; intros vr x vx Hx H; inversion H; subst; cbn [fold_left prodz].
  - unfold ev in *. now rewrite Z.mul_1_r.
  - match goal with Ht : ev s t ?v, Hr : Forall2 _ r ?l |- _ =>
      specialize (IH l (Mul x t) (vx * v) (evalR_mul _ _ _ _ _ Hx Ht) Hr) end.
    unfold ev in *. rewrite IH. f_equal. ring.
Qed.

Lemma fold_max_sound s z : forall r vr x vx,
  ev s x vx -> I32 vx -> vx <= z -> Forall2 (ev s) r vr -> (forall v, In v vr -> I32 v /\ v <= z) ->
  exists m, ev s (fold_left Max r x) m /\ m <= z /\ vx <= m /\ (forall v, In v vr -> v <= m).
Proof.
  induction r as [|t r IH]; intros vr x vx Hx Ix Lx H Hall; inversion H; subst; cbn [fold_left].
  - exists vx. repeat split; auto; try lia. intros v [].
  - match goal with Ht : ev s t ?v, Hr : Forall2 _ r ?l |- _ =>
      destruct (Hall v (or_introl eq_refl)) as [Iv Lv];
      destruct (IH l (Max x t) (Z.max vx v) (evalR_max _ _ _ _ _ Hx Ht Ix Iv)) as (m & Hm & L1 & L2 & L3);
      [unfold I32 in *; lia | lia | exact Hr | intros w Hw; apply Hall; now right | ] end.
    exists m. repeat split; auto; try lia. intros w [<-|Hw]; [lia|auto].
Qed.
Lemma fold_min_sound s z : forall r vr x vx,
  ev s x vx -> I32 vx -> z <= vx -> Forall2 (ev s) r vr -> (forall v, In v vr -> I32 v /\ z <= v) ->
  exists m, ev s (fold_left Min r x) m /\ z <= m /\ m <= vx /\ (forall v, In v vr -> m <= v).
Proof.
  induction r as [|t r IH]; intros vr x vx Hx Ix Lx H Hall; inversion H; subst; cbn [fold_left].
  - exists vx. repeat split; auto; try lia. intros v [].
  - match goal with Ht : ev s t ?v, Hr : Forall2 _ r ?l |- _ =>
      destruct (Hall v (or_introl eq_refl)) as [Iv Lv];
      destruct (IH l (Min x t) (Z.min vx v) (evalR_min _ _ _ _ _ Hx Ht Ix Iv)) as (m & Hm & L1 & L2 & L3);
      [unfold I32 in *; lia | lia | exact Hr | intros w Hw; apply Hall; now right | ] end.
    exists m. repeat split; auto; try lia. intros w [<-|Hw]; [lia|auto].
Qed.
Lemma fold_bc_sound s z : forall r vr x vx,
  ev s x vx -> I32 vx -> bc_leaf vx z -> Forall2 (ev s) r vr ->
  (forall v, In v vr -> I32 v /\ bc_leaf v z) ->
  exists m, ev s (fold_left Broadcast r x) m /\ bc_leaf m z /\ vx <= m /\ (forall v, In v vr -> v <= m).
Proof.
  induction r as [|t r IH]; intros vr x vx Hx Ix Lx H Hall; inversion H; subst; cbn [fold_left].
  - exists vx. split; [exact Hx|]. split; [exact Lx|]. split; [lia|]. intros v [].
  - match goal with Ht : ev s t ?v, Hr : Forall2 _ r ?l |- _ =>
      destruct (Hall v (or_introl eq_refl)) as [Iv Lv];
      assert (Hp : bc_pair_ok vx v = true) by (apply bc_pair_ok_spec; unfold bc_leaf in *; lia);
      destruct (IH l (Broadcast x t) (Z.max vx v) (evalR_bc _ _ _ _ _ Hx Ht Ix Iv Hp)) as (m & Hm & L1 & L2 & L3);
      [unfold I32 in *; lia | unfold bc_leaf in *; lia | exact Hr | intros w Hw; apply Hall; now right | ] end.
    exists m. split; [exact Hm|]. split; [exact L1|]. split; [lia|]. intros w [<-|Hw]; [lia|auto].
Qed.

Lemma reduce_sound s k ts vs z :
  Forall2 (ev s) ts vs -> chain_sem k vs z -> ev s (reduce (mk k) (default_of k) ts) z.
Proof.
  intros H C. destruct ts as [|x r]; inversion H as [|? vx ? vr Hx Hr]; subst; cbn [reduce].
  - destruct k; cbn [chain_sem default_of sumz prodz In] in *; subst;
      try (unfold ev; reflexivity); destruct C as [[] _].
  - destruct k; cbn [chain_sem mk] in C |- *.
    + subst. replace (fold_left (mk KAdd) r x) with (fold_left Add r x) by reflexivity.
      apply fold_add_sound; assumption.
    + subst. replace (fold_left (mk KMul) r x) with (fold_left Mul r x) by reflexivity.
      apply fold_mul_sound; assumption.
    + destruct C as [I Hc]. replace (fold_left (mk KMax) r x) with (fold_left Max r x) by reflexivity.
      destruct (Hc vx (or_introl eq_refl)) as [Ix Lx].
      destruct (fold_max_sound s z r vr x vx Hx Ix Lx Hr) as (m & Hm & L1 & L2 & L3).
      { intros v Hv. apply Hc. now right. }
      assert (m = z) by (destruct I as [<-|I]; [lia|specialize (L3 _ I); lia]). now subst.
    + destruct C as [I Hc]. replace (fold_left (mk KMin) r x) with (fold_left Min r x) by reflexivity.
      destruct (Hc vx (or_introl eq_refl)) as [Ix Lx].
      destruct (fold_min_sound s z r vr x vx Hx Ix Lx Hr) as (m & Hm & L1 & L2 & L3).
      { intros v Hv. apply Hc. now right. }
      assert (m = z) by (destruct I as [<-|I]; [lia|specialize (L3 _ I); lia]). now subst.
    + destruct C as [I Hc].
      replace (fold_left (mk KBc) r x) with (fold_left Broadcast r x) by reflexivity.
      destruct (Hc vx (or_introl eq_refl)) as [Ix Lx].
      destruct (fold_bc_sound s z r vr x vx Hx Ix Lx Hr) as (m & Hm & L1 & L2 & L3).
      { intros v Hv. apply Hc. now right. }
      assert (m = z).
      { unfold bc_leaf in L1. destruct I as [<-|I]; [lia|specialize (L3 _ I); lia]. }
      now subst.
Qed.

(* reassociate_terms: collected terms with the chain's meaning ==> the re-built expression *)
Lemma finish_sound s k ts vs z :
  Forall2 (ev s) ts vs -> chain_sem k vs z -> evalR s (finish k ts) = Ok z.
Proof.
  intros H C. unfold finish.
  destruct (Permutation_Forall2 (Permutation_sym (isort_perm ts)) H) as (vs1 & P1 & H1).
  pose proof (chain_sem_perm _ _ _ _ P1 C) as C1.
  destruct (cleanup_sound s k _ _ _ H1 C1) as (vs2 & H2 & C2).
  exact (reduce_sound s k _ _ _ H2 C2).
Qed.

(* ---- Neg folding ---- *)
Lemma neg_fold_sound s c z : evalR s (Neg c) = Ok z -> evalR s (neg_fold c) = Ok z.
Proof.
  intros H. destruct c; cbn [neg_fold]; try exact H.
  destruct (z0 =? i32_min) eqn:E; [exact H|].
  apply evalR_neg_inv in H as (x & Hx & ->). apply evalR_value_inv in Hx as [-> Hr].
  apply evalR_value. unfold I32, i32_min, i32_max in *. lia.
Qed.

(* ---- the recursion ---- *)
Section Canon.
  Variable s : env.
  Variable on_sub : expr -> expr -> expr.
  Hypothesis on_sub_sound : forall l r z, evalR s (Sub l r) = Ok z -> evalR s (on_sub l r) = Ok z.

  Definition canon_spec (e : expr) : Prop :=
    forall z, evalR s e = Ok z ->
      evalR s (fst (canon_aux on_sub e)) = Ok z /\
      forall k, kind_of e = Some k ->
        exists vs, Forall2 (ev s) (snd (canon_aux on_sub e)) vs /\ chain_sem k vs z.

  Lemma sub_terms_sound k a z :
    canon_spec a -> evalR s a = Ok z -> leaf_ok k z ->
    exists vs, Forall2 (ev s) (sub_terms k a (canon_aux on_sub a)) vs /\ chain_sem k vs z.
  Proof.
    intros Ha He Hl. destruct (Ha z He) as [H1 H2]. unfold sub_terms.
    destruct (kind_of a) as [k'|] eqn:Ek.
    - destruct (kind_eqb k k') eqn:E.
      + assert (k = k') by (destruct k, k'; cbn in E; congruence). subst. now apply H2.
      + exists [z]. split; [repeat constructor; exact H1|now apply chain_sem_single].
    - exists [z]. split; [repeat constructor; exact H1|now apply chain_sem_single].
  Qed.

  Lemma canon_aux_mk k a b :
    canon_aux on_sub (mk k a b) = chain k a (canon_aux on_sub a) b (canon_aux on_sub b).
  Proof. destruct k; reflexivity. Qed.

  Lemma chain_sound k a b : canon_spec a -> canon_spec b -> canon_spec (mk k a b).
  Proof.
    intros Ha Hb z H. rewrite canon_aux_mk. unfold chain. cbn [fst snd].
    apply node_inv in H as (x & y & Hx & Hy & Lx & Ly & Hn & ->).
    destruct (sub_terms_sound k a x Ha Hx Lx) as (va & Fa & Ca).
    destruct (sub_terms_sound k b y Hb Hy Ly) as (vb & Fb & Cb).
    pose proof (chain_sem_app k _ _ _ _ Ca Cb Hn) as C.
    pose proof (Forall2_app Fa Fb) as F.
    split; [exact (finish_sound s k _ _ _ F C)|].
    intros k' Ek. assert (k' = k) by (destruct k; cbn in Ek; congruence). subst.
    eauto.
  Qed.

  Lemma canon_aux_sound e : canon_spec e.
  Proof.
    induction e.
    - intros v H. split; [exact H|]. discriminate.
    - intros v H. split; [exact H|]. discriminate.
    - exact (chain_sound KAdd _ _ IHe1 IHe2).
    - intros v H. split; [|discriminate]. cbn [canon_aux fst].
      apply evalR_sub_inv in H as (x & y & Hx & Hy & ->).
      apply on_sub_sound. apply evalR_sub; [now apply IHe1|now apply IHe2].
    - exact (chain_sound KMul _ _ IHe1 IHe2).
    - intros v H. split; [|discriminate]. cbn [canon_aux fst].
      apply evalR_div_inv in H as (x & y & Hx & Hy & Ix & Iy & Hy0 & -> & Iz).
      apply evalR_div; auto; [now apply IHe1|now apply IHe2].
    - intros v H. split; [|discriminate]. cbn [canon_aux fst].
      apply evalR_divceil_inv in H as (x & y & Hx & Hy & Ix & Iy & Hy0 & -> & Iz).
      apply evalR_divceil; auto; [now apply IHe1|now apply IHe2].
    - exact (chain_sound KMax _ _ IHe1 IHe2).
    - exact (chain_sound KMin _ _ IHe1 IHe2).
    - exact (chain_sound KBc _ _ IHe1 IHe2).
    - intros v H. split; [|discriminate]. cbn [canon_aux fst].
      apply neg_fold_sound. apply evalR_neg_inv in H as (x & Hx & ->).
      apply evalR_neg. now apply IHe.
  Qed.
End Canon.

Lemma recanon_sound s e z : evalR s e = Ok z -> evalR s (recanon e) = Ok z.
Proof.
  intros H. unfold recanon.
  exact (proj1 (canon_aux_sound s (fun l r => Sub l r) (fun _ _ _ H => H) e z H)).
Qed.

(* Sub(l, r) => canonicalize(Add(l, Neg r)) *)
Lemma canon_sub_sound s l r z : evalR s (Sub l r) = Ok z -> evalR s (canon_sub l r) = Ok z.
Proof.
  intros H. unfold canon_sub. apply recanon_sound.
  apply evalR_sub_inv in H as (x & y & Hx & Hy & ->).
  replace (x - y) with (x + - y) by lia. apply evalR_add; [assumption|now apply evalR_neg].
Qed.

Theorem canon_sound s e z : evalR s e = Ok z -> evalR s (canon e) = Ok z.
Proof.
  intros H. unfold canon.
  exact (proj1 (canon_aux_sound s canon_sub (canon_sub_sound s) e z H)).
Qed.
