(* Witnesses: the code before the fixes violates the property (F5, F17, F18, F20), and the
   one residual finding about the fixed code (F17b: overflow-checked evaluation of a
   re-associated expression). All by computation on concrete inputs. *)
From RV Require Import Prelude.
From SymExpr Require Import SymExprModel.
Open Scope Z_scope.

Definition env1 (v : Z) : env := env_of_list [(0%N, v)].

(* F5: range() before the fix excludes attainable values *)
Lemma range_old_refuted_add :
  exists s e v, eval s e = Ok v /\ pos_ok s e = true /\ bcast_ok s e = true /\
                ~ (fst (range_old e) <= v <= snd (range_old e)).
Proof.
  exists (env1 0), (Add (Value 2) (Value 3)), 5. repeat split; try reflexivity.
  vm_compute. intros [_ H]. apply H. reflexivity.
Qed.
Lemma range_old_refuted_neg :
  exists s e v, eval s e = Ok v /\ pos_ok s e = true /\ bcast_ok s e = true /\
                ~ (fst (range_old e) <= v <= snd (range_old e)).
Proof.
  exists (env1 0), (Neg (Var 0 true)), 0. repeat split; try reflexivity.
  vm_compute. intros [_ H]. apply H. reflexivity.
Qed.
Lemma range_old_refuted_mul :
  exists s e v, eval s e = Ok v /\ pos_ok s e = true /\ bcast_ok s e = true /\
                ~ (fst (range_old e) <= v <= snd (range_old e)).
Proof.
  exists (env1 3), (Mul (Value (-2)) (Var 0 true)), (-6). repeat split; try reflexivity.
  vm_compute. intros [H _]. apply H. reflexivity.
Qed.

(* F17: x / 65536 / 65536 becomes x / 0 in a release build, and simplify panics in an
   overflow-checked build; MIN / -1 makes simplify panic in every build *)
Definition e_f17 : expr := Div (Div (Var 0 false) (Value 65536)) (Value 65536).
Lemma simplify_old_fold_refuted :
  exists s e e' v, eval s e = Ok v /\ pos_ok s e = true /\ bcast_ok s e = true /\
                   simplify_gen (cfg_old true) e = Some e' /\ evalw s e' = EDivZero.
Proof. exists (env1 7), e_f17, (Div (Var 0 false) (Value 0)), 0. repeat split; reflexivity. Qed.
Lemma simplify_old_panics_debug :
  exists s e v, eval s e = Ok v /\ simplify_gen (cfg_old false) e = None.
Proof. exists (env1 7), e_f17, 0. split; reflexivity. Qed.
Lemma simplify_old_panics_release :
  exists e, simplify_gen (cfg_old true) e = None.
Proof. exists (Div (Value i32_min) (Value (-1))). reflexivity. Qed.

(* F18: ceil(ceil(x / 2) / -1) is merged into ceil(x / (2 * -1)) *)
Definition e_f18 : expr := DivCeil (DivCeil (Var 0 false) (Value 2)) (Value (-1)).
Lemma simplify_old_divceil_nest_refuted :
  exists s e e' v v', eval s e = Ok v /\ pos_ok s e = true /\ bcast_ok s e = true /\
     simplify_gen (cfg_old true) e = Some e' /\ evalw s e' = Ok v' /\ v <> v'.
Proof.
  exists (env1 3), e_f18, (DivCeil (Var 0 false) (Mul (Value 2) (Value (-1)))), (-2), (-1).
  repeat split; try reflexivity. discriminate.
Qed.
(* ... and the same rewrite with symbolic divisors overflows although the original is defined *)
Lemma simplify_old_div_nest_refuted :
  exists s e e' v, eval s e = Ok v /\ pos_ok s e = true /\ bcast_ok s e = true /\
     simplify_gen (cfg_old true) e = Some e' /\ evalw s e' = EDivZero.
Proof.
  exists (env_of_list [(0%N, 5); (1%N, 65536); (2%N, 65536)]),
         (Div (Div (Var 0 false) (Var 1 false)) (Var 2 false)),
         (Div (Var 0 false) (Mul (Var 1 false) (Var 2 false))), 0.
  repeat split; reflexivity.
Qed.

(* F20 (found by the proof): cancelling a common factor of unknown sign; checked folds and
   the nesting guard are already in place here *)
Definition cfg_f20 : cfg := {| fm := FChecked; guard := true; posg := false |}.
Definition e_f20 : expr :=
  Div (Mul (Mul (Var 0 false) (Value 65536)) (Value 32768)) (Mul (Var 0 false) (Value 3)).
Lemma simplify_common_factor_refuted :
  exists s e e' v v', eval s e = Ok v /\ pos_ok s e = true /\ bcast_ok s e = true /\
     simplify_gen cfg_f20 e = Some e' /\ evalw s e' = Ok v' /\ v <> v'.
Proof.
  exists (env1 (-1)), e_f20, (Div (Mul (Value 65536) (Value 32768)) (Value 3)),
         715827882, (-715827882).
  repeat split; try reflexivity. discriminate.
Qed.

(* F17b (fixed code, known finding): re-association moves constants together; with
   overflow-checked evaluation the simplified expression can trap on an intermediate sum
   although the original does not.  (MAX + a) + 1 at a = -1. *)
Definition e_f17b : expr := Add (Add (Value i32_max) (Var 0 false)) (Value 1).
Lemma simplify_checked_eval_refuted :
  exists s e v, eval s e = Ok v /\ pos_ok s e = true /\ bcast_ok s e = true /\
                eval s (simplify e) = EOvf /\ evalw s (simplify e) = Ok v.
Proof. exists (env1 (-1)), e_f17b, i32_max. repeat split; reflexivity. Qed.
