(* The executable oracle [prop_ok] used by the correspondence check accepts every case in which
   the implementation returns what the (fixed) model returns: a VIOLATION reported through
   prop_ok can only come from an implementation output that differs from the model's. *)
From RV Require Import Prelude.
From SymExpr Require Import SymExprModel SymExpr_base SymExpr_range SymExpr_sem SymExpr_canon SymExpr_simp.
From Coq Require Import ZifyBool.
Open Scope Z_scope.

Lemma res_eqb_refl r : res_eqb r r = true.
Proof. destruct r; cbn; try reflexivity. apply Z.eqb_refl. Qed.

Lemma res_eqb_eq a b : res_eqb a b = true -> a = b.
Proof. destruct a, b; cbn; try discriminate; try reflexivity. intros H. apply Z.eqb_eq in H. now subst. Qed.

Theorem oracle_accepts_model w e evals :
  prop_ok {| c_w := w; c_e := e; c_simp := Some (simplify e); c_range := Some (range e);
             c_pos := Some (is_positive e); c_evals := evals |} = true.
Proof.
  unfold prop_ok, prop_gen. cbn [c_simp c_evals andb]. apply forallb_forall. intros t _.
  unfold prop_one. cbn [c_e c_simp c_range c_pos].
  set (s := env_of_list (fst (fst t))).
  destruct (eval s e) as [v| | | | |] eqn:E; try reflexivity.
  destruct (bcast_ok s e && pos_ok s e) eqn:B; [|reflexivity].
  apply andb_prop in B as [B P].
  cbn [negb]. change (evalm true s (simplify e)) with (evalw s (simplify e)).
  rewrite (simplify_sound s e v E B P). rewrite res_eqb_refl. cbn [andb].
  pose proof (range_sound s e v E P B) as R. destruct (range e) as [lo hi]. cbn [fst snd] in R.
  replace ((lo <=? v) && (v <=? hi)) with true by lia. cbn [andb].
  destruct (is_positive e) eqn:I; [|reflexivity].
  pose proof (is_positive_sound s e v E P B I). lia.
Qed.

(* Conversely, a case rejected by prop_one exhibits an assignment on which the implementation's
   outputs break the property: the original evaluates, the preconditions hold, and the
   simplified tree / range / flag returned by the implementation is wrong for that value. *)
Theorem prop_one_false c l :
  prop_one false c l = false ->
  exists v, eval (env_of_list l) (c_e c) = Ok v /\
            bcast_ok (env_of_list l) (c_e c) = true /\ pos_ok (env_of_list l) (c_e c) = true /\
            ((forall se, c_simp c = Some se -> evalw (env_of_list l) se <> Ok v) \/
             (forall lo hi, c_range c = Some (lo, hi) -> ~ (lo <= v <= hi)) \/
             (c_pos c <> Some false /\ ~ (c_pos c = Some true /\ 0 <= v))).
Proof.
  unfold prop_one. set (s := env_of_list l).
  destruct (eval s (c_e c)) as [v| | | | |] eqn:E; try discriminate.
  destruct (bcast_ok s (c_e c) && pos_ok s (c_e c)) eqn:B; [|discriminate].
  apply andb_prop in B as [B P]. intros H. exists v. split; [reflexivity|]. split; [assumption|]. split; [assumption|].
  apply andb_false_iff in H as [H|H]; [apply andb_false_iff in H as [H|H]|].
  - left. intros se Hs. rewrite Hs in H. cbn [negb] in H. intros Heq.
    change (evalm true s se) with (evalw s se) in H. rewrite Heq, res_eqb_refl in H. discriminate.
  - right; left. intros lo hi Hr. rewrite Hr in H. lia.
  - right; right. destruct (c_pos c) as [[|]|]; try discriminate.
    + split; [discriminate|]. intros [_ Hv]. lia.
    + split; [discriminate|]. intros [Hc _]. discriminate.
Qed.
