(* Soundness of SymExpr::is_positive and of SymExpr::range (after the F5 fix). *)
From RV Require Import Prelude.
From SymExpr Require Import SymExprModel SymExpr_base.
From Coq Require Import ZifyBool.
Open Scope Z_scope.

Ltac Zify.zify_post_hook ::= Z.to_euclidean_division_equations.

Lemma bc_pair_ok_spec x y :
  bc_pair_ok x y = true <->
  0 <= x /\ 0 <= y /\ (x = y \/ (x = 1 /\ 1 <= y) \/ (y = 1 /\ 1 <= x)).
Proof. unfold bc_pair_ok. lia. Qed.

(* the hypotheses of a binary node give the hypotheses of its operands *)
Ltac split_hyps :=
  repeat match goal with
         | H : (_ && _)%bool = true |- _ => apply andb_prop in H; destruct H
         end.

(* ------------------------------------------------------------ is_positive *)
Lemma is_positive_sound s e v :
  eval s e = Ok v -> pos_ok s e = true -> bcast_ok s e = true ->
  is_positive e = true -> 0 <= v.
Proof.
  unfold eval. revert v; induction e; intros v H Hp Hb Hpos;
    cbn [evalm pos_ok bcast_ok is_positive] in *; try discriminate.
  - destruct (in_i32 z); inversion H; subst. lia.
  - subst pos. destruct (s id); [|discriminate]. destruct (in_i32 z); inversion H; subst. lia.
  - (* Add *) split_hyps. apply bind2_ok in H as (x & y & Ha & Hb' & H).
    apply chk_false_ok in H as [-> _].
    specialize (IHe1 _ Ha ltac:(assumption) ltac:(assumption) ltac:(assumption)).
    specialize (IHe2 _ Hb' ltac:(assumption) ltac:(assumption) ltac:(assumption)). lia.
  - (* Mul *) split_hyps. apply bind2_ok in H as (x & y & Ha & Hb' & H).
    apply chk_false_ok in H as [-> _].
    specialize (IHe1 _ Ha ltac:(assumption) ltac:(assumption) ltac:(assumption)).
    specialize (IHe2 _ Hb' ltac:(assumption) ltac:(assumption) ltac:(assumption)). nia.
  - (* Div *) split_hyps. apply bind2_ok in H as (x & y & Ha & Hb' & H).
    destruct (y =? 0) eqn:Ey; [discriminate|]. destruct (div_ovf x y); [discriminate|].
    inversion H; subst.
    specialize (IHe1 _ Ha ltac:(assumption) ltac:(assumption) ltac:(assumption)).
    specialize (IHe2 _ Hb' ltac:(assumption) ltac:(assumption) ltac:(assumption)). nia.
  - (* DivCeil *) split_hyps. apply bind2_ok in H as (x & y & Ha & Hb' & H).
    destruct (y =? 0) eqn:Ey; [discriminate|]. destruct (div_ovf x y); [discriminate|].
    inversion H; subst.
    specialize (IHe1 _ Ha ltac:(assumption) ltac:(assumption) ltac:(assumption)).
    specialize (IHe2 _ Hb' ltac:(assumption) ltac:(assumption) ltac:(assumption)).
    apply div_ceil_pos; lia.
  - (* Max *) split_hyps. apply bind2_ok in H as (x & y & Ha & Hb' & H). inversion H; subst.
    apply orb_prop in Hpos as [Hpos|Hpos].
    + specialize (IHe1 _ Ha ltac:(assumption) ltac:(assumption) Hpos). lia.
    + specialize (IHe2 _ Hb' ltac:(assumption) ltac:(assumption) Hpos). lia.
  - (* Min *) split_hyps. apply bind2_ok in H as (x & y & Ha & Hb' & H). inversion H; subst.
    specialize (IHe1 _ Ha ltac:(assumption) ltac:(assumption) ltac:(assumption)).
    specialize (IHe2 _ Hb' ltac:(assumption) ltac:(assumption) ltac:(assumption)). lia.
  - (* Broadcast *) split_hyps. apply bind2_ok in H as (x & y & Ha & Hb' & H). inversion H; subst.
    unfold eval in *. rewrite Ha, Hb' in *.
    match goal with Hk : bc_pair_ok _ _ = true |- _ => apply bc_pair_ok_spec in Hk end. lia.
Qed.

(* ------------------------------------------------------------------ range *)
Lemma clamp32_le_lo z v : I32 v -> z <= v -> clamp32 z <= v.
Proof. unfold clamp32, I32, i32_min, i32_max. lia. Qed.
Lemma clamp32_ge_hi z v : I32 v -> v <= z -> v <= clamp32 z.
Proof. unfold clamp32, I32, i32_min, i32_max. lia. Qed.

Lemma mul_between lo hi x y :
  lo <= x <= hi -> Z.min (lo * y) (hi * y) <= x * y <= Z.max (lo * y) (hi * y).
Proof. intros. destruct (Z_le_gt_dec 0 y); nia. Qed.

Lemma mul_corners a b c d x y :
  a <= x <= b -> c <= y <= d ->
  min4 (a * c) (a * d) (b * c) (b * d) <= x * y <= max4 (a * c) (a * d) (b * c) (b * d).
Proof.
  intros Hx Hy. unfold min4, max4.
  pose proof (mul_between a b x y Hx) as H1.
  pose proof (mul_between c d y a Hy) as H2.
  pose proof (mul_between c d y b Hy) as H3.
  rewrite !(Z.mul_comm _ a) in H2. rewrite !(Z.mul_comm _ b) in H3. lia.
Qed.

Lemma range_sound s e v :
  eval s e = Ok v -> pos_ok s e = true -> bcast_ok s e = true ->
  fst (range e) <= v <= snd (range e).
Proof.
  unfold eval. revert v; induction e; intros v H Hp Hb;
    pose proof (evalm_range _ _ _ _ H) as Hv;
    cbn [evalm pos_ok bcast_ok range] in *.
  - destruct (in_i32 z); inversion H; subst. cbn. lia.
  - destruct (s id); [|discriminate]. destruct (in_i32 z) eqn:E; inversion H; subst.
    apply in_i32_iff in E. unfold var_range, I32 in *. destruct pos; cbn; lia.
  - (* Add *) split_hyps. apply bind2_ok in H as (x & y & Ha & Hb' & H).
    apply chk_false_ok in H as [-> _].
    specialize (IHe1 _ Ha ltac:(assumption) ltac:(assumption)).
    specialize (IHe2 _ Hb' ltac:(assumption) ltac:(assumption)). cbn [fst snd].
    split; [apply clamp32_le_lo|apply clamp32_ge_hi]; auto; lia.
  - (* Sub *) cbn [fst snd]. exact Hv.
  - (* Mul *) split_hyps. apply bind2_ok in H as (x & y & Ha & Hb' & H).
    apply chk_false_ok in H as [-> _].
    specialize (IHe1 _ Ha ltac:(assumption) ltac:(assumption)).
    specialize (IHe2 _ Hb' ltac:(assumption) ltac:(assumption)).
    pose proof (mul_corners _ _ _ _ _ _ IHe1 IHe2). unfold mul_range. cbn [fst snd].
    split; [apply clamp32_le_lo|apply clamp32_ge_hi]; auto; lia.
  - (* Div *) split_hyps. apply bind2_ok in H as (x & y & Ha & Hb' & H).
    destruct (y =? 0) eqn:Ey; [discriminate|]. destruct (div_ovf x y); [discriminate|].
    inversion H; subst.
    specialize (IHe1 _ Ha ltac:(assumption) ltac:(assumption)).
    specialize (IHe2 _ Hb' ltac:(assumption) ltac:(assumption)).
    unfold div_range. destruct (0 <=? fst (range e2)) eqn:E0; cbn [fst snd].
    + assert (0 < y) by lia. destruct (Z_le_gt_dec 0 x); nia.
    + assert (Z.abs (Z.quot x y) <= Z.abs x) by nia.
      split; [apply clamp32_le_lo|apply clamp32_ge_hi]; auto; lia.
  - (* DivCeil *) split_hyps. apply bind2_ok in H as (x & y & Ha & Hb' & H).
    destruct (y =? 0) eqn:Ey; [discriminate|]. destruct (div_ovf x y); [discriminate|].
    inversion H; subst.
    specialize (IHe1 _ Ha ltac:(assumption) ltac:(assumption)).
    specialize (IHe2 _ Hb' ltac:(assumption) ltac:(assumption)).
    unfold div_range. destruct (0 <=? fst (range e2)) eqn:E0; cbn [fst snd].
    + assert (0 < y) by lia. destruct (Z_le_gt_dec 0 x).
      * pose proof (div_ceil_pos x y ltac:(lia) ltac:(lia)). lia.
      * pose proof (div_ceil_neg_pos x y ltac:(lia) ltac:(lia)). lia.
    + pose proof (div_ceil_abs x y ltac:(lia)).
      split; [apply clamp32_le_lo|apply clamp32_ge_hi]; auto; lia.
  - (* Max *) split_hyps. apply bind2_ok in H as (x & y & Ha & Hb' & H). inversion H; subst.
    specialize (IHe1 _ Ha ltac:(assumption) ltac:(assumption)).
    specialize (IHe2 _ Hb' ltac:(assumption) ltac:(assumption)). unfold hull. cbn [fst snd]. lia.
  - (* Min *) split_hyps. apply bind2_ok in H as (x & y & Ha & Hb' & H). inversion H; subst.
    specialize (IHe1 _ Ha ltac:(assumption) ltac:(assumption)).
    specialize (IHe2 _ Hb' ltac:(assumption) ltac:(assumption)). unfold hull. cbn [fst snd]. lia.
  - (* Broadcast *) split_hyps. apply bind2_ok in H as (x & y & Ha & Hb' & H). inversion H; subst.
    specialize (IHe1 _ Ha ltac:(assumption) ltac:(assumption)).
    specialize (IHe2 _ Hb' ltac:(assumption) ltac:(assumption)).
    unfold eval in *. rewrite Ha, Hb' in *.
    match goal with Hk : bc_pair_ok _ _ = true |- _ => apply bc_pair_ok_spec in Hk end.
    unfold bc_range. cbn [fst snd]. lia.
  - (* Neg *) destruct (evalm false s e) eqn:E; try discriminate.
    apply chk_false_ok in H as [-> _]. specialize (IHe _ eq_refl Hp Hb). cbn [fst snd].
    split; [apply clamp32_le_lo|apply clamp32_ge_hi]; auto; lia.
Qed.
