(* The proof-internal evaluator [evalR]: exact integer arithmetic in the ring operations
   (Add/Sub/Mul/Neg are not range-checked), i32 checks on the operands of every non-ring node
   (Div, DivCeil, Max, Min, Broadcast) and on constants/symbols, and the two preconditions
   (Broadcast operands; symbols declared positive are non-negative) as distinct errors.  It sits between the two machine evaluators:

      eval s e = Ok v /\ bcast_ok s e /\ pos_ok s e  ==>  evalR s e = Ok v   (evalR_of_eval)
      evalR s e = Ok z                  ==>   evalw s e = Ok (wrap32 z)  (evalw_of_evalR)

   and every rewrite of canonicalize / simplify_canonical preserves [evalR s e = Ok z]
   (files SymExpr_canon.v, SymExpr_simp.v).  Re-association may create intermediate sums or
   products that leave the i32 range, which is why the conclusion of simplify_sound is about
   the wrapping evaluator. *)
From RV Require Import Prelude.
From SymExpr Require Import SymExprModel SymExpr_base SymExpr_range.
From Coq Require Import ZifyBool.
Open Scope Z_scope.

Ltac Zify.zify_post_hook ::= Z.to_euclidean_division_equations.

Definition chk2 (x y : Z) (k : res) : res := if in_i32 x && in_i32 y then k else EOvf.

Fixpoint evalR (s : env) (e : expr) : res :=
  match e with
  | Value z => if in_i32 z then Ok z else EOvf
  | Var id p => match s id with
                | Some v => if in_i32 v then (if p && (v <? 0) then EPos else Ok v) else EOvf
                | None => EMissing
                end
  | Neg a => match evalR s a with Ok x => Ok (- x) | err => err end
  | Add a b => bind2 (evalR s a) (evalR s b) (fun x y => Ok (x + y))
  | Sub a b => bind2 (evalR s a) (evalR s b) (fun x y => Ok (x - y))
  | Mul a b => bind2 (evalR s a) (evalR s b) (fun x y => Ok (x * y))
  | Div a b => bind2 (evalR s a) (evalR s b) (fun x y => chk2 x y (
      if y =? 0 then EDivZero else if div_ovf x y then EOvf else Ok (Z.quot x y)))
  | DivCeil a b => bind2 (evalR s a) (evalR s b) (fun x y => chk2 x y (
      if y =? 0 then EDivZero else if div_ovf x y then EOvf else Ok (div_ceil_z x y)))
  | Max a b => bind2 (evalR s a) (evalR s b) (fun x y => chk2 x y (Ok (Z.max x y)))
  | Min a b => bind2 (evalR s a) (evalR s b) (fun x y => chk2 x y (Ok (Z.min x y)))
  | Broadcast a b => bind2 (evalR s a) (evalR s b) (fun x y => chk2 x y (
      if bc_pair_ok x y then Ok (Z.max x y) else EBcast))
  end.

Lemma chk2_ok x y k z : chk2 x y k = Ok z -> I32 x /\ I32 y /\ k = Ok z.
Proof.
  unfold chk2. destruct (in_i32 x) eqn:Ex, (in_i32 y) eqn:Ey; cbn; try discriminate.
  intros ->. rewrite in_i32_iff in Ex, Ey. auto.
Qed.

Lemma chk2_intro x y k : I32 x -> I32 y -> chk2 x y k = k.
Proof. intros Hx Hy. unfold chk2. apply in_i32_iff in Hx, Hy. now rewrite Hx, Hy. Qed.

(* ------------------------------------------------- eval  ==>  evalR *)
Lemma evalR_of_eval s e v :
  eval s e = Ok v -> bcast_ok s e = true -> pos_ok s e = true -> evalR s e = Ok v.
Proof.
  unfold eval. revert v; induction e; intros v H Hb Hp; cbn [evalm bcast_ok pos_ok evalR] in *;
    try assumption.
  all: try (split_hyps; apply bind2_ok in H as (x & y & Ha & Hb' & H);
            rewrite (IHe1 _ Ha) by assumption; rewrite (IHe2 _ Hb') by assumption;
            cbn [bind2]).
  - destruct (s id); [|discriminate]. destruct (in_i32 z) eqn:E; [|discriminate].
    destruct pos; cbn [andb]; [|exact H]. replace (z <? 0) with false by lia. exact H.
  - apply chk_false_ok in H as [-> _]. reflexivity.
  - apply chk_false_ok in H as [-> _]. reflexivity.
  - apply chk_false_ok in H as [-> _]. reflexivity.
  - rewrite chk2_intro by (eapply evalm_range; eauto). exact H.
  - rewrite chk2_intro by (eapply evalm_range; eauto). exact H.
  - rewrite chk2_intro by (eapply evalm_range; eauto). exact H.
  - rewrite chk2_intro by (eapply evalm_range; eauto). exact H.
  - rewrite chk2_intro by (eapply evalm_range; eauto).
    unfold eval in *. rewrite Ha, Hb' in *.
    match goal with Hk : bc_pair_ok _ _ = true |- _ => rewrite Hk end. exact H.
  - destruct (evalm false s e) eqn:E; try discriminate.
    rewrite (IHe _ eq_refl Hb Hp). apply chk_false_ok in H as [-> _]. reflexivity.
Qed.

(* ------------------------------------------------- evalR  ==>  evalw *)
Lemma wrap32_add x y : wrap32 (wrap32 x + wrap32 y) = wrap32 (x + y).
Proof.
  destruct (wrap32_mod x) as [k1 H1]. destruct (wrap32_mod y) as [k2 H2].
  apply wrap32_cong with (k := k1 + k2). lia.
Qed.
Lemma wrap32_sub x y : wrap32 (wrap32 x - wrap32 y) = wrap32 (x - y).
Proof.
  destruct (wrap32_mod x) as [k1 H1]. destruct (wrap32_mod y) as [k2 H2].
  apply wrap32_cong with (k := k1 - k2). lia.
Qed.
Lemma wrap32_mul x y : wrap32 (wrap32 x * wrap32 y) = wrap32 (x * y).
Proof.
  destruct (wrap32_mod x) as [k1 H1]. destruct (wrap32_mod y) as [k2 H2].
  apply wrap32_cong with (k := k1 * y + k2 * x + k1 * k2 * 4294967296). rewrite H1, H2. ring.
Qed.
Lemma wrap32_neg x : wrap32 (- wrap32 x) = wrap32 (- x).
Proof.
  destruct (wrap32_mod x) as [k1 H1]. apply wrap32_cong with (k := - k1). lia.
Qed.

Lemma evalw_of_evalR s e z : evalR s e = Ok z -> evalw s e = Ok (wrap32 z).
Proof.
  unfold evalw. revert z; induction e; intros v H; cbn [evalm evalR] in *.
  - destruct (in_i32 z) eqn:E; inversion H; subst. apply in_i32_iff in E.
    now rewrite wrap32_id.
  - destruct (s id); [|discriminate]. destruct (in_i32 z) eqn:E; [|discriminate].
    destruct (pos && (z <? 0)); inversion H; subst.
    apply in_i32_iff in E. now rewrite wrap32_id.
  - apply bind2_ok in H as (x & y & Ha & Hb & H). inversion H; subst.
    rewrite (IHe1 _ Ha), (IHe2 _ Hb). cbn [bind2 chk]. now rewrite wrap32_add.
  - apply bind2_ok in H as (x & y & Ha & Hb & H). inversion H; subst.
    rewrite (IHe1 _ Ha), (IHe2 _ Hb). cbn [bind2 chk]. now rewrite wrap32_sub.
  - apply bind2_ok in H as (x & y & Ha & Hb & H). inversion H; subst.
    rewrite (IHe1 _ Ha), (IHe2 _ Hb). cbn [bind2 chk]. now rewrite wrap32_mul.
  - apply bind2_ok in H as (x & y & Ha & Hb & H). apply chk2_ok in H as (Hx & Hy & H).
    rewrite (IHe1 _ Ha), (IHe2 _ Hb). cbn [bind2]. rewrite !wrap32_id by assumption.
    destruct (y =? 0) eqn:Ey; [discriminate|]. destruct (div_ovf x y) eqn:Eo; [discriminate|].
    inversion H; subst. rewrite wrap32_id; [reflexivity|]. apply quot_range; auto. lia.
  - apply bind2_ok in H as (x & y & Ha & Hb & H). apply chk2_ok in H as (Hx & Hy & H).
    rewrite (IHe1 _ Ha), (IHe2 _ Hb). cbn [bind2]. rewrite !wrap32_id by assumption.
    destruct (y =? 0) eqn:Ey; [discriminate|]. destruct (div_ovf x y) eqn:Eo; [discriminate|].
    inversion H; subst. rewrite wrap32_id; [reflexivity|]. apply div_ceil_range; auto. lia.
  - apply bind2_ok in H as (x & y & Ha & Hb & H). apply chk2_ok in H as (Hx & Hy & H).
    rewrite (IHe1 _ Ha), (IHe2 _ Hb). cbn [bind2]. rewrite !wrap32_id by assumption.
    inversion H; subst. rewrite wrap32_id; [reflexivity|]. unfold I32 in *. lia.
  - apply bind2_ok in H as (x & y & Ha & Hb & H). apply chk2_ok in H as (Hx & Hy & H).
    rewrite (IHe1 _ Ha), (IHe2 _ Hb). cbn [bind2]. rewrite !wrap32_id by assumption.
    inversion H; subst. rewrite wrap32_id; [reflexivity|]. unfold I32 in *. lia.
  - apply bind2_ok in H as (x & y & Ha & Hb & H). apply chk2_ok in H as (Hx & Hy & H).
    rewrite (IHe1 _ Ha), (IHe2 _ Hb). cbn [bind2]. rewrite !wrap32_id by assumption.
    destruct (bc_pair_ok x y); [|discriminate].
    inversion H; subst. rewrite wrap32_id; [reflexivity|]. unfold I32 in *. lia.
  - destruct (evalR s e) eqn:E; try discriminate. inversion H; subst.
    rewrite (IHe _ eq_refl). cbn [chk]. now rewrite wrap32_neg.
Qed.

(* ------------------------------------- introduction / inversion per node *)
Lemma evalR_value s z : I32 z -> evalR s (Value z) = Ok z.
Proof. intros H. cbn. apply in_i32_iff in H. now rewrite H. Qed.

Lemma evalR_value_inv s z v : evalR s (Value z) = Ok v -> v = z /\ I32 z.
Proof.
  cbn. destruct (in_i32 z) eqn:E; [|discriminate]. intros H; inversion H; subst.
  split; [reflexivity|]. now apply in_i32_iff.
Qed.

Lemma evalR_add s a b x y : evalR s a = Ok x -> evalR s b = Ok y -> evalR s (Add a b) = Ok (x + y).
Proof. intros Ha Hb. cbn. now rewrite Ha, Hb. Qed.
Lemma evalR_mul s a b x y : evalR s a = Ok x -> evalR s b = Ok y -> evalR s (Mul a b) = Ok (x * y).
Proof. intros Ha Hb. cbn. now rewrite Ha, Hb. Qed.
Lemma evalR_sub s a b x y : evalR s a = Ok x -> evalR s b = Ok y -> evalR s (Sub a b) = Ok (x - y).
Proof. intros Ha Hb. cbn. now rewrite Ha, Hb. Qed.
Lemma evalR_neg s a x : evalR s a = Ok x -> evalR s (Neg a) = Ok (- x).
Proof. intros Ha. cbn. now rewrite Ha. Qed.

Lemma evalR_add_inv s a b z :
  evalR s (Add a b) = Ok z -> exists x y, evalR s a = Ok x /\ evalR s b = Ok y /\ z = x + y.
Proof. cbn. intros H. apply bind2_ok in H as (x & y & Ha & Hb & H). inversion H. eauto. Qed.
Lemma evalR_sub_inv s a b z :
  evalR s (Sub a b) = Ok z -> exists x y, evalR s a = Ok x /\ evalR s b = Ok y /\ z = x - y.
Proof. cbn. intros H. apply bind2_ok in H as (x & y & Ha & Hb & H). inversion H. eauto. Qed.
Lemma evalR_mul_inv s a b z :
  evalR s (Mul a b) = Ok z -> exists x y, evalR s a = Ok x /\ evalR s b = Ok y /\ z = x * y.
Proof. cbn. intros H. apply bind2_ok in H as (x & y & Ha & Hb & H). inversion H. eauto. Qed.
Lemma evalR_neg_inv s a z :
  evalR s (Neg a) = Ok z -> exists x, evalR s a = Ok x /\ z = - x.
Proof. cbn. destruct (evalR s a); try discriminate. intros H; inversion H. eauto. Qed.

Lemma quot_i32_no_ovf x y : I32 (Z.quot x y) -> div_ovf x y = false.
Proof.
  intros H. apply div_ovf_false. intros [-> ->]. unfold I32, i32_min, i32_max in H.
  vm_compute in H. destruct H as [_ H]. apply H. reflexivity.
Qed.
Lemma div_ceil_i32_no_ovf x y : I32 (div_ceil_z x y) -> div_ovf x y = false.
Proof.
  intros H. apply div_ovf_false. intros [-> ->]. unfold I32, i32_min, i32_max in H.
  vm_compute in H. destruct H as [_ H]. apply H. reflexivity.
Qed.

Lemma evalR_div s a b x y :
  evalR s a = Ok x -> evalR s b = Ok y -> I32 x -> I32 y -> y <> 0 -> I32 (Z.quot x y) ->
  evalR s (Div a b) = Ok (Z.quot x y).
Proof.
  intros Ha Hb Hx Hy Hy0 Hq. cbn. rewrite Ha, Hb. cbn [bind2]. rewrite chk2_intro by assumption.
  destruct (y =? 0) eqn:E; [lia|]. now rewrite quot_i32_no_ovf.
Qed.
Lemma evalR_div_inv s a b z :
  evalR s (Div a b) = Ok z ->
  exists x y, evalR s a = Ok x /\ evalR s b = Ok y /\ I32 x /\ I32 y /\ y <> 0 /\
              z = Z.quot x y /\ I32 z.
Proof.
  cbn. intros H. apply bind2_ok in H as (x & y & Ha & Hb & H). apply chk2_ok in H as (Hx & Hy & H).
  destruct (y =? 0) eqn:Ey; [discriminate|]. destruct (div_ovf x y) eqn:Eo; [discriminate|].
  inversion H; subst. assert (Hq : I32 (Z.quot x y)) by (apply quot_range; auto; lia).
  exists x, y. do 6 (split; [first [assumption|reflexivity|lia]|]). assumption.
Qed.

Lemma evalR_divceil s a b x y :
  evalR s a = Ok x -> evalR s b = Ok y -> I32 x -> I32 y -> y <> 0 -> I32 (div_ceil_z x y) ->
  evalR s (DivCeil a b) = Ok (div_ceil_z x y).
Proof.
  intros Ha Hb Hx Hy Hy0 Hq. cbn. rewrite Ha, Hb. cbn [bind2]. rewrite chk2_intro by assumption.
  destruct (y =? 0) eqn:E; [lia|]. now rewrite div_ceil_i32_no_ovf.
Qed.
Lemma evalR_divceil_inv s a b z :
  evalR s (DivCeil a b) = Ok z ->
  exists x y, evalR s a = Ok x /\ evalR s b = Ok y /\ I32 x /\ I32 y /\ y <> 0 /\
              z = div_ceil_z x y /\ I32 z.
Proof.
  cbn. intros H. apply bind2_ok in H as (x & y & Ha & Hb & H). apply chk2_ok in H as (Hx & Hy & H).
  destruct (y =? 0) eqn:Ey; [discriminate|]. destruct (div_ovf x y) eqn:Eo; [discriminate|].
  inversion H; subst. assert (Hq : I32 (div_ceil_z x y)) by (apply div_ceil_range; auto; lia).
  exists x, y. do 6 (split; [first [assumption|reflexivity|lia]|]). assumption.
Qed.

Lemma evalR_max s a b x y :
  evalR s a = Ok x -> evalR s b = Ok y -> I32 x -> I32 y -> evalR s (Max a b) = Ok (Z.max x y).
Proof. intros Ha Hb Hx Hy. cbn. rewrite Ha, Hb. cbn [bind2]. now rewrite chk2_intro. Qed.
Lemma evalR_max_inv s a b z :
  evalR s (Max a b) = Ok z ->
  exists x y, evalR s a = Ok x /\ evalR s b = Ok y /\ I32 x /\ I32 y /\ z = Z.max x y.
Proof.
  cbn. intros H. apply bind2_ok in H as (x & y & Ha & Hb & H). apply chk2_ok in H as (Hx & Hy & H).
  inversion H. exists x, y. auto.
Qed.
Lemma evalR_min s a b x y :
  evalR s a = Ok x -> evalR s b = Ok y -> I32 x -> I32 y -> evalR s (Min a b) = Ok (Z.min x y).
Proof. intros Ha Hb Hx Hy. cbn. rewrite Ha, Hb. cbn [bind2]. now rewrite chk2_intro. Qed.
Lemma evalR_min_inv s a b z :
  evalR s (Min a b) = Ok z ->
  exists x y, evalR s a = Ok x /\ evalR s b = Ok y /\ I32 x /\ I32 y /\ z = Z.min x y.
Proof.
  cbn. intros H. apply bind2_ok in H as (x & y & Ha & Hb & H). apply chk2_ok in H as (Hx & Hy & H).
  inversion H. exists x, y. auto.
Qed.
Lemma evalR_bc s a b x y :
  evalR s a = Ok x -> evalR s b = Ok y -> I32 x -> I32 y -> bc_pair_ok x y = true ->
  evalR s (Broadcast a b) = Ok (Z.max x y).
Proof.
  intros Ha Hb Hx Hy Hp. cbn. rewrite Ha, Hb. cbn [bind2]. rewrite chk2_intro by assumption.
  now rewrite Hp.
Qed.
Lemma evalR_bc_inv s a b z :
  evalR s (Broadcast a b) = Ok z ->
  exists x y, evalR s a = Ok x /\ evalR s b = Ok y /\ I32 x /\ I32 y /\
              bc_pair_ok x y = true /\ z = Z.max x y.
Proof.
  cbn. intros H. apply bind2_ok in H as (x & y & Ha & Hb & H). apply chk2_ok in H as (Hx & Hy & H).
  destruct (bc_pair_ok x y) eqn:E; [|discriminate]. inversion H; subst. exists x, y.
  do 5 (split; [assumption|]). reflexivity.
Qed.

Lemma bc_pair_ok_sym x y : bc_pair_ok x y = bc_pair_ok y x.
Proof. unfold bc_pair_ok. lia. Qed.

(* ------------------------------------------ PartialEq implies equal values *)
Lemma expr_eqb_val s a : forall b x y,
  expr_eqb a b = true -> evalR s a = Ok x -> evalR s b = Ok y -> x = y.
Proof.
  induction a; intros b0 vx vy E Ha Hb; destruct b0; cbn [expr_eqb] in E; try discriminate.
  - apply Z.eqb_eq in E. subst. congruence.
  - apply N.eqb_eq in E. subst. cbn [evalR] in Ha, Hb.
    destruct (s id0); [|discriminate]. destruct (in_i32 z); [|discriminate].
    destruct (pos && (z <? 0)); [discriminate|]. destruct (pos0 && (z <? 0)); [discriminate|].
    congruence.
  - apply evalR_add_inv in Ha as (x1 & x2 & H1 & H2 & ->).
    apply evalR_add_inv in Hb as (y1 & y2 & H3 & H4 & ->).
    apply orb_prop in E as [E|E]; apply andb_prop in E as [E1 E2].
    + rewrite (IHa1 _ _ _ E1 H1 H3), (IHa2 _ _ _ E2 H2 H4). reflexivity.
    + rewrite (IHa1 _ _ _ E1 H1 H4), (IHa2 _ _ _ E2 H2 H3). lia.
  - apply evalR_sub_inv in Ha as (x1 & x2 & H1 & H2 & ->).
    apply evalR_sub_inv in Hb as (y1 & y2 & H3 & H4 & ->).
    apply andb_prop in E as [E1 E2].
    rewrite (IHa1 _ _ _ E1 H1 H3), (IHa2 _ _ _ E2 H2 H4). reflexivity.
  - apply evalR_mul_inv in Ha as (x1 & x2 & H1 & H2 & ->).
    apply evalR_mul_inv in Hb as (y1 & y2 & H3 & H4 & ->).
    apply orb_prop in E as [E|E]; apply andb_prop in E as [E1 E2].
    + rewrite (IHa1 _ _ _ E1 H1 H3), (IHa2 _ _ _ E2 H2 H4). reflexivity.
    + rewrite (IHa1 _ _ _ E1 H1 H4), (IHa2 _ _ _ E2 H2 H3). lia.
  - apply evalR_div_inv in Ha as (x1 & x2 & H1 & H2 & _ & _ & _ & -> & _).
    apply evalR_div_inv in Hb as (y1 & y2 & H3 & H4 & _ & _ & _ & -> & _).
    apply andb_prop in E as [E1 E2].
    rewrite (IHa1 _ _ _ E1 H1 H3), (IHa2 _ _ _ E2 H2 H4). reflexivity.
  - apply evalR_divceil_inv in Ha as (x1 & x2 & H1 & H2 & _ & _ & _ & -> & _).
    apply evalR_divceil_inv in Hb as (y1 & y2 & H3 & H4 & _ & _ & _ & -> & _).
    apply andb_prop in E as [E1 E2].
    rewrite (IHa1 _ _ _ E1 H1 H3), (IHa2 _ _ _ E2 H2 H4). reflexivity.
  - apply evalR_max_inv in Ha as (x1 & x2 & H1 & H2 & _ & _ & ->).
    apply evalR_max_inv in Hb as (y1 & y2 & H3 & H4 & _ & _ & ->).
    apply orb_prop in E as [E|E]; apply andb_prop in E as [E1 E2].
    + rewrite (IHa1 _ _ _ E1 H1 H3), (IHa2 _ _ _ E2 H2 H4). reflexivity.
    + rewrite (IHa1 _ _ _ E1 H1 H4), (IHa2 _ _ _ E2 H2 H3). lia.
  - apply evalR_min_inv in Ha as (x1 & x2 & H1 & H2 & _ & _ & ->).
    apply evalR_min_inv in Hb as (y1 & y2 & H3 & H4 & _ & _ & ->).
    apply orb_prop in E as [E|E]; apply andb_prop in E as [E1 E2].
    + rewrite (IHa1 _ _ _ E1 H1 H3), (IHa2 _ _ _ E2 H2 H4). reflexivity.
    + rewrite (IHa1 _ _ _ E1 H1 H4), (IHa2 _ _ _ E2 H2 H3). lia.
  - apply evalR_bc_inv in Ha as (x1 & x2 & H1 & H2 & _ & _ & _ & ->).
    apply evalR_bc_inv in Hb as (y1 & y2 & H3 & H4 & _ & _ & _ & ->).
    apply orb_prop in E as [E|E]; apply andb_prop in E as [E1 E2].
    + rewrite (IHa1 _ _ _ E1 H1 H3), (IHa2 _ _ _ E2 H2 H4). reflexivity.
    + rewrite (IHa1 _ _ _ E1 H1 H4), (IHa2 _ _ _ E2 H2 H3). lia.
  - apply evalR_neg_inv in Ha as (x1 & H1 & ->). apply evalR_neg_inv in Hb as (y1 & H3 & ->).
    rewrite (IHa _ _ _ E H1 H3). reflexivity.
Qed.

(* ------------------------------------------ is_positive for evalR values *)
Lemma is_positive_R s e : forall z, evalR s e = Ok z -> is_positive e = true -> 0 <= z.
Proof.
  induction e; intros v H P; cbn [is_positive] in P; try discriminate.
  - apply evalR_value_inv in H as [-> _]. lia.
  - subst pos. cbn [evalR] in H. destruct (s id); [|discriminate].
    destruct (in_i32 z); [|discriminate]. cbn [andb] in H.
    destruct (z <? 0) eqn:E; inversion H; subst. lia.
  - apply andb_prop in P as [P1 P2]. apply evalR_add_inv in H as (x & y & Hx & Hy & ->).
    specialize (IHe1 _ Hx P1). specialize (IHe2 _ Hy P2). lia.
  - apply andb_prop in P as [P1 P2]. apply evalR_mul_inv in H as (x & y & Hx & Hy & ->).
    specialize (IHe1 _ Hx P1). specialize (IHe2 _ Hy P2). nia.
  - apply andb_prop in P as [P1 P2].
    apply evalR_div_inv in H as (x & y & Hx & Hy & _ & _ & Hy0 & -> & _).
    specialize (IHe1 _ Hx P1). specialize (IHe2 _ Hy P2). nia.
  - apply andb_prop in P as [P1 P2].
    apply evalR_divceil_inv in H as (x & y & Hx & Hy & _ & _ & Hy0 & -> & _).
    specialize (IHe1 _ Hx P1). specialize (IHe2 _ Hy P2). apply div_ceil_pos; lia.
  - apply evalR_max_inv in H as (x & y & Hx & Hy & _ & _ & ->).
    apply orb_prop in P as [P|P]; [specialize (IHe1 _ Hx P)|specialize (IHe2 _ Hy P)]; lia.
  - apply andb_prop in P as [P1 P2]. apply evalR_min_inv in H as (x & y & Hx & Hy & _ & _ & ->).
    specialize (IHe1 _ Hx P1). specialize (IHe2 _ Hy P2). lia.
  - apply evalR_bc_inv in H as (x & y & Hx & Hy & _ & _ & Hp & ->).
    apply bc_pair_ok_spec in Hp. lia.
Qed.
