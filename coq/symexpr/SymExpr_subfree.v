(* Canonical forms contain no Sub.  This justifies modelling the second canonicalize pass of
   the Sub case (`Add(lhs, -rhs).canonicalize()`, applied to canonical operands) by [recanon],
   whose own Sub branch is therefore never reached. *)
From RV Require Import Prelude.
From SymExpr Require Import SymExprModel SymExpr_canon.
From Coq Require Import Permutation.
Open Scope Z_scope.

Definition SF (e : expr) : Prop := sub_free e = true.

Lemma rm_adj_eq_SF l : Forall SF l -> Forall SF (rm_adj_eq l).
Proof.
  induction l as [|x r IH]; intros H; [exact H|].
  inversion H as [|? ? Hx Hr]; subst. destruct r as [|y r']; [exact H|].
  cbn [rm_adj_eq]. destruct (expr_eqb x y); [now apply IH|]. constructor; [exact Hx|now apply IH].
Qed.

Lemma rm_adj_opp_SF : forall n l, (length l <= n)%nat -> Forall SF l -> Forall SF (rm_adj_opp l).
Proof.
  induction n; intros l Hn H.
  - destruct l; [exact H|cbn in Hn; lia].
  - destruct l as [|x [|y r']]; try exact H.
    inversion H as [|? ? Hx Hr]; subst. inversion Hr as [|? ? Hy Hr']; subst.
    cbn [rm_adj_opp]. destruct (is_negation_of x y).
    + apply (IHn r'); [cbn in Hn; lia|exact Hr'].
    + constructor; [exact Hx|]. apply (IHn (y :: r')); [cbn in *; lia|exact Hr].
Qed.

Lemma mk_SF k a b : SF a -> SF b -> SF (mk k a b).
Proof. unfold SF. intros Ha Hb. destruct k; cbn; now rewrite Ha, Hb. Qed.

Lemma fold_mk_SF k : forall r x, SF x -> Forall SF r -> SF (fold_left (mk k) r x).
Proof.
  induction r as [|t r IH]; intros x Hx H; cbn [fold_left]; [exact Hx|].
  inversion H; subst. apply IH; [now apply mk_SF|assumption].
Qed.

Lemma finish_SF k ts : Forall SF ts -> SF (finish k ts).
Proof.
  intros H. unfold finish.
  assert (H1 : Forall SF (isort ts)).
  { eapply Permutation_Forall; [apply Permutation_sym, isort_perm|exact H]. }
  assert (H2 : Forall SF (cleanup k (isort ts))).
  { destruct k; cbn [cleanup]; try exact H1; try (now apply rm_adj_eq_SF).
    eapply rm_adj_opp_SF; [apply le_n|exact H1]. }
  destruct (cleanup k (isort ts)) as [|x r]; cbn [reduce].
  - destruct k; reflexivity.
  - inversion H2; subst. now apply fold_mk_SF.
Qed.

Lemma neg_fold_SF c : SF c -> SF (neg_fold c).
Proof. unfold SF. intros H. destruct c; cbn [neg_fold]; try exact H. destruct (z =? i32_min); reflexivity. Qed.

Section Gen.
  Variable on_sub : expr -> expr -> expr.
  Hypothesis on_sub_SF : forall l r, SF l -> SF r -> SF (on_sub l r).

  Lemma sub_terms_SF k a :
    SF (fst (canon_aux on_sub a)) -> Forall SF (snd (canon_aux on_sub a)) ->
    Forall SF (sub_terms k a (canon_aux on_sub a)).
  Proof.
    intros H1 H2. unfold sub_terms. destruct (kind_of a) as [k'|].
    - destruct (kind_eqb k k'); [exact H2|]. constructor; [exact H1|constructor].
    - constructor; [exact H1|constructor].
  Qed.

  Lemma chain_SF k a b :
    SF (fst (canon_aux on_sub a)) -> Forall SF (snd (canon_aux on_sub a)) ->
    SF (fst (canon_aux on_sub b)) -> Forall SF (snd (canon_aux on_sub b)) ->
    SF (fst (chain k a (canon_aux on_sub a) b (canon_aux on_sub b))) /\
    Forall SF (snd (chain k a (canon_aux on_sub a) b (canon_aux on_sub b))).
  Proof.
    intros A1 A2 B1 B2. unfold chain. cbn [fst snd].
    assert (F : Forall SF (sub_terms k a (canon_aux on_sub a) ++ sub_terms k b (canon_aux on_sub b)))
      by (apply Forall_app; split; now apply sub_terms_SF).
    split; [now apply finish_SF|exact F].
  Qed.

  Lemma canon_aux_SF e :
    SF (fst (canon_aux on_sub e)) /\ Forall SF (snd (canon_aux on_sub e)).
  Proof.
    induction e; cbn [canon_aux];
      try (split; [reflexivity|constructor]);
      try (destruct IHe1 as [A1 A2]; destruct IHe2 as [B1 B2]);
      try (now apply chain_SF).
    - cbn [fst snd]. split; [now apply on_sub_SF|constructor].
    - cbn [fst snd]. split; [|constructor]. unfold SF in *. cbn. now rewrite A1, B1.
    - cbn [fst snd]. split; [|constructor]. unfold SF in *. cbn. now rewrite A1, B1.
    - destruct IHe as [A1 A2]. cbn [fst snd]. split; [now apply neg_fold_SF|constructor].
  Qed.
End Gen.

(* on a Sub-free expression canonicalize never looks at [on_sub] *)
Lemma canon_aux_ext f g e : SF e -> canon_aux f e = canon_aux g e.
Proof.
  unfold SF. induction e; cbn [sub_free canon_aux]; intros H; try reflexivity; try discriminate;
    try (apply andb_prop in H as [H1 H2]; rewrite (IHe1 H1), (IHe2 H2); reflexivity).
  now rewrite (IHe H).
Qed.

Lemma recanon_SF e : SF e -> SF (recanon e).
Proof.
  intros H. unfold recanon. rewrite (canon_aux_ext _ (fun _ _ => Value 0) e H).
  apply canon_aux_SF. intros; reflexivity.
Qed.

Lemma canon_sub_SF l r : SF l -> SF r -> SF (canon_sub l r).
Proof.
  intros Hl Hr. unfold canon_sub. apply recanon_SF. unfold SF in *. cbn. now rewrite Hl, Hr.
Qed.

Theorem canon_sub_free e : sub_free (canon e) = true.
Proof. unfold canon. apply (canon_aux_SF canon_sub canon_sub_SF e). Qed.

(* hence the Sub branch of [recanon] (and of simplify_canonical) is never taken by simplify *)
Theorem recanon_arg_sub_free l r : sub_free (Add (canon l) (Neg (canon r))) = true.
Proof. cbn. now rewrite !canon_sub_free. Qed.
