(* Soundness of simplify_canonical (fixed code: checked folds, guarded division nesting) with
   respect to evalR, one lemma per rewrite rule; remove_common_factors; totality; and the
   end-to-end theorems about simplify. *)
From RV Require Import Prelude.
From SymExpr Require Import SymExprModel SymExpr_base SymExpr_range SymExpr_sem SymExpr_canon.
From Coq Require Import ZifyBool Permutation.
Open Scope Z_scope.

Ltac Zify.zify_post_hook ::= Z.to_euclidean_division_equations.

Lemma is_const_true e c : is_const e c = true -> e = Value c.
Proof. destruct e; cbn; try discriminate. intros H. apply Z.eqb_eq in H. now subst. Qed.
Lemma is_val_some e x : is_val e = Some x -> e = Value x.
Proof. destruct e; cbn; try discriminate. intros H. now inversion H. Qed.

Lemma fold_checked z : fold FChecked z = if in_i32 z then FV z else FSkip.
Proof. reflexivity. Qed.

(* ------------------------------------------------------------------ Neg *)
Lemma simp_neg_sound s x z e' :
  evalR s (Neg x) = Ok z -> simp_neg FChecked x = Some e' -> evalR s e' = Ok z.
Proof.
  intros H S. destruct x; cbn [simp_neg] in S; try (inversion S; subst; exact H).
  - rewrite fold_checked in S. destruct (in_i32 (- z0)) eqn:E; inversion S; subst; [|exact H].
    apply evalR_neg_inv in H as (v & Hv & ->). apply evalR_value_inv in Hv as [-> _].
    apply evalR_value. now apply in_i32_iff.
  - inversion S; subst. apply evalR_neg_inv in H as (v & Hv & ->).
    apply evalR_neg_inv in Hv as (w & Hw & ->). rewrite Z.opp_involutive. exact Hw.
Qed.

(* ------------------------------------------------------------------ Add *)
Lemma simp_add_sound s l r z e' :
  evalR s (Add l r) = Ok z -> simp_add FChecked l r = Some e' -> evalR s e' = Ok z.
Proof.
  intros H S. unfold simp_add in S.
  pose proof H as H0. apply evalR_add_inv in H as (x & y & Hx & Hy & ->).
  destruct (is_const l 0) eqn:El.
  { (* 0 + r => r *)
    apply is_const_true in El. subst. inversion S; subst.
    apply evalR_value_inv in Hx as [-> _]. exact Hy. }
  destruct (is_const r 0) eqn:Er.
  { (* l + 0 => l *)
    apply is_const_true in Er. subst. inversion S; subst.
    apply evalR_value_inv in Hy as [-> _]. now rewrite Z.add_0_r. }
  destruct (is_val l) as [a|] eqn:Vl.
  - destruct (is_val r) as [b|] eqn:Vr.
    + (* constant fold, only when the sum is representable *)
      apply is_val_some in Vl, Vr. subst. rewrite fold_checked in S.
      apply evalR_value_inv in Hx as [-> _]. apply evalR_value_inv in Hy as [-> _].
      destruct (in_i32 (a + b)) eqn:E; inversion S; subst; [|exact H0].
      apply evalR_value. now apply in_i32_iff.
    + destruct r; try (inversion S; subst; exact H0).
      destruct (expr_eqb l r) eqn:E; inversion S; subst; [|exact H0].
      apply evalR_neg_inv in Hy as (w & Hw & ->).
      pose proof (expr_eqb_val _ _ _ _ _ E Hx Hw). subst. rewrite Z.add_opp_diag_r. reflexivity.
  - (* l + (-l) => 0 *)
    assert (S' : match r with
                 | Neg r' => if expr_eqb l r' then Some (Value 0) else Some (Add l r)
                 | _ => Some (Add l r) end = Some e') by (destruct (is_val r); exact S).
    clear S. destruct r; try (inversion S'; subst; exact H0).
    destruct (expr_eqb l r) eqn:E; inversion S'; subst; [|exact H0].
    apply evalR_neg_inv in Hy as (w & Hw & ->).
    pose proof (expr_eqb_val _ _ _ _ _ E Hx Hw). subst. rewrite Z.add_opp_diag_r. reflexivity.
Qed.

(* ------------------------------------------------------------------ Sub *)
Lemma simp_sub_sound s l r z e' :
  evalR s (Sub l r) = Ok z -> simp_sub FChecked l r = Some e' -> evalR s e' = Ok z.
Proof.
  intros H S. unfold simp_sub in S.
  pose proof H as H0. apply evalR_sub_inv in H as (x & y & Hx & Hy & ->).
  destruct (is_const r 0) eqn:Er.
  { apply is_const_true in Er. subst. inversion S; subst.
    apply evalR_value_inv in Hy as [-> _]. now rewrite Z.sub_0_r. }
  assert (Hrest : evalR s (if expr_eqb l r then Value 0 else Sub l r) = Ok (x - y)).
  { destruct (expr_eqb l r) eqn:E; [|exact H0].
    pose proof (expr_eqb_val _ _ _ _ _ E Hx Hy). subst. rewrite Z.sub_diag. reflexivity. }
  destruct (is_val l) as [a|] eqn:Vl; [destruct (is_val r) as [b|] eqn:Vr|];
    try (inversion S; subst; exact Hrest).
  apply is_val_some in Vl, Vr. subst. rewrite fold_checked in S.
  apply evalR_value_inv in Hx as [-> _]. apply evalR_value_inv in Hy as [-> _].
  destruct (in_i32 (a - b)) eqn:E; inversion S; subst; [|exact Hrest].
  apply evalR_value. now apply in_i32_iff.
Qed.

(* ------------------------------------------------------------------ Mul *)
Lemma simp_mul_sound s l r z e' :
  evalR s (Mul l r) = Ok z -> simp_mul FChecked l r = Some e' -> evalR s e' = Ok z.
Proof.
  intros H S. unfold simp_mul in S.
  pose proof H as H0. apply evalR_mul_inv in H as (x & y & Hx & Hy & ->).
  destruct (is_const l 1) eqn:El.
  { apply is_const_true in El. subst. inversion S; subst.
    apply evalR_value_inv in Hx as [-> _]. now rewrite Z.mul_1_l. }
  destruct (is_const r 1) eqn:Er.
  { apply is_const_true in Er. subst. inversion S; subst.
    apply evalR_value_inv in Hy as [-> _]. now rewrite Z.mul_1_r. }
  destruct (is_val l) as [a|] eqn:Vl; [destruct (is_val r) as [b|] eqn:Vr|];
    try (inversion S; subst; exact H0).
  apply is_val_some in Vl, Vr. subst. rewrite fold_checked in S.
  apply evalR_value_inv in Hx as [-> _]. apply evalR_value_inv in Hy as [-> _].
  destruct (in_i32 (a * b)) eqn:E; inversion S; subst; [|exact H0].
  apply evalR_value. now apply in_i32_iff.
Qed.

(* ------------------------------------------------ remove_common_factors *)
Lemma collect_mul_sound s e : forall x, evalR s e = Ok x ->
  exists vs, Forall2 (ev s) (collect_mul e) vs /\ prodz vs = x.
Proof.
  induction e; intros x H; cbn [collect_mul];
    try (exists [x]; split; [repeat constructor; exact H|cbn [prodz]; lia]).
  apply evalR_mul_inv in H as (a & b & Ha & Hb & ->).
  destruct (IHe1 _ Ha) as (va & Fa & Pa). destruct (IHe2 _ Hb) as (vb & Fb & Pb).
  exists (va ++ vb). split; [now apply Forall2_app|]. rewrite prodz_app. now subst.
Qed.

Lemma remove_first_sound s t v : forall rs vs rs',
  ev s t v -> Forall2 (ev s) rs vs -> remove_first t rs = Some rs' ->
  exists vs', Forall2 (ev s) rs' vs' /\ prodz vs = v * prodz vs'.
Proof.
  induction rs as [|u r IH]; intros vs rs' Ht H R; cbn [remove_first] in R; [discriminate|].
  inversion H as [|? vu ? vr Hu Hr]; subst.
  destruct (expr_eqb t u) eqn:E.
  - inversion R; subst. exists vr. split; [exact Hr|].
    pose proof (expr_eqb_val _ _ _ _ _ E Ht Hu). subst. reflexivity.
  - destruct (remove_first t r) as [r'|] eqn:R'; [|discriminate]. inversion R; subst.
    destruct (IH _ _ Ht Hr eq_refl) as (vs' & F & P).
    exists (vu :: vs'). split; [constructor; assumption|]. cbn [prodz]. rewrite P. ring.
Qed.

(* only factors known to be positive are cancelled: the common factor k is > 0 *)
Lemma rcf_loop_sound s : forall ls rs vl vr,
  Forall2 (ev s) ls vl -> Forall2 (ev s) rs vr -> prodz vr <> 0 ->
  exists vl' vr' k,
    Forall2 (ev s) (fst (rcf_loop true ls rs)) vl' /\ Forall2 (ev s) (snd (rcf_loop true ls rs)) vr' /\
    0 < k /\ prodz vl = k * prodz vl' /\ prodz vr = k * prodz vr'.
Proof.
  induction ls as [|t ls IH]; intros rs vl vr Hl Hr Hnz; inversion Hl as [|? vt ? vl0 Ht Hl0]; subst;
    cbn [rcf_loop andb].
  - exists [], vr, 1. cbn [fst snd prodz]. repeat split; auto; lia.
  - assert (Hskip : exists vl' vr' k,
        Forall2 (ev s) (fst (let p := rcf_loop true ls rs in (t :: fst p, snd p))) vl' /\
        Forall2 (ev s) (snd (let p := rcf_loop true ls rs in (t :: fst p, snd p))) vr' /\
        0 < k /\ prodz (vt :: vl0) = k * prodz vl' /\ prodz vr = k * prodz vr').
    { destruct (IH rs vl0 vr Hl0 Hr Hnz) as (vl' & vr' & k & F1 & F2 & Hk & P2 & P3).
      exists (vt :: vl'), vr', k. cbn [fst snd]. split; [constructor; assumption|].
      split; [exact F2|]. split; [exact Hk|]. split; [|exact P3]. cbn [prodz]. rewrite P2. ring. }
    destruct (is_positive t) eqn:Pt; cbn [negb]; [|exact Hskip].
    destruct (remove_first t rs) as [rs'|] eqn:R; [|exact Hskip]. clear Hskip.
    destruct (remove_first_sound s t vt rs vr rs' Ht Hr R) as (vr1 & Hr1 & P1).
    pose proof (is_positive_R s t vt Ht Pt) as Hpos.
    assert (vt <> 0 /\ prodz vr1 <> 0) as [Hvt Hnz1] by nia.
    destruct (IH rs' vl0 vr1 Hl0 Hr1 Hnz1) as (vl' & vr' & k & F1 & F2 & Hk & P2 & P3).
    exists vl', vr', (vt * k). split; [exact F1|]. split; [exact F2|]. split; [nia|]. split.
    + cbn [prodz]. rewrite P2. ring.
    + rewrite P1, P3. ring.
Qed.

Lemma set_first_const_sound s c' : forall l vs c,
  Forall2 (ev s) l vs -> first_const l = Some c -> I32 c' ->
  I32 c /\ exists vs' rest, Forall2 (ev s) (set_first_const c' l) vs' /\
                            prodz vs = c * rest /\ prodz vs' = c' * rest.
Proof.
  induction l as [|t r IH]; intros vs c H F Ic; cbn [first_const] in F; [discriminate|].
  inversion H as [|? vt ? vr Ht Hr]; subst.
  destruct t; try (
    cbn [set_first_const]; destruct (IH _ _ Hr F Ic) as (I & vs' & rest & F' & P1 & P2);
    split; [exact I|]; exists (vt :: vs'), (vt * rest);
    split; [constructor; assumption|]; cbn [prodz]; rewrite P1, P2; split; ring).
  inversion F; subst. cbn [set_first_const]. unfold ev in Ht. apply evalR_value_inv in Ht as [-> I].
  split; [exact I|]. exists (c' :: vr), (prodz vr). split; [|cbn [prodz]; split; reflexivity].
  constructor; [now apply evalR_value|exact Hr].
Qed.

Lemma gcd_step_sound s ls rs vl vr :
  Forall2 (ev s) ls vl -> Forall2 (ev s) rs vr ->
  exists vl' vr' k,
    Forall2 (ev s) (fst (gcd_step ls rs)) vl' /\ Forall2 (ev s) (snd (gcd_step ls rs)) vr' /\
    0 < k /\ prodz vl = k * prodz vl' /\ prodz vr = k * prodz vr'.
Proof.
  intros Hl Hr. unfold gcd_step.
  assert (Hid : exists vl' vr' k, Forall2 (ev s) ls vl' /\ Forall2 (ev s) rs vr' /\
            0 < k /\ prodz vl = k * prodz vl' /\ prodz vr = k * prodz vr').
  { exists vl, vr, 1. repeat split; auto; lia. }
  destruct (first_const ls) as [lc|] eqn:Fl; [|exact Hid].
  destruct (first_const rs) as [rc|] eqn:Fr; [|exact Hid].
  destruct (in_i32 (Z.gcd lc rc) && (1 <? Z.gcd lc rc) && negb (rc =? 0)) eqn:C; [|exact Hid].
  clear Hid. cbn [fst snd]. set (g := Z.gcd lc rc) in *.
  assert (Hg : 1 < g) by lia.
  destruct (Z.gcd_divide_l lc rc) as [ql Hql]. destruct (Z.gcd_divide_r lc rc) as [qr Hqr].
  fold g in Hql, Hqr.
  assert (El : Z.quot lc g = ql) by (rewrite Hql; apply Z.quot_mul; lia).
  assert (Er : Z.quot rc g = qr) by (rewrite Hqr; apply Z.quot_mul; lia).
  (* the constants are i32 values, so the reduced constants are too *)
  destruct (set_first_const_sound s 0 ls vl lc Hl Fl ltac:(unfold I32, i32_min, i32_max; lia)) as [Ilc _].
  destruct (set_first_const_sound s 0 rs vr rc Hr Fr ltac:(unfold I32, i32_min, i32_max; lia)) as [Irc _].
  assert (Iql : I32 ql) by (unfold I32, i32_min, i32_max in *; nia).
  assert (Iqr : I32 qr) by (unfold I32, i32_min, i32_max in *; nia).
  rewrite El, Er.
  destruct (set_first_const_sound s ql ls vl lc Hl Fl Iql) as (_ & vl' & restl & Fl' & P1 & P2).
  destruct (set_first_const_sound s qr rs vr rc Hr Fr Iqr) as (_ & vr' & restr & Fr' & P3 & P4).
  exists vl', vr', g. split; [exact Fl'|]. split; [exact Fr'|]. split; [lia|].
  split; [rewrite P1, P2, Hql; ring | rewrite P3, P4, Hqr; ring].
Qed.

Lemma reduce_mul_sound s ts vs :
  Forall2 (ev s) ts vs -> evalR s (reduce Mul (Value 1) ts) = Ok (prodz vs).
Proof. intros H. exact (reduce_sound s KMul ts vs (prodz vs) H eq_refl). Qed.

Lemma rcf_sound s l r x y :
  evalR s l = Ok x -> evalR s r = Ok y -> y <> 0 ->
  exists x' y' k,
    evalR s (fst (remove_common_factors true l r)) = Ok x' /\
    evalR s (snd (remove_common_factors true l r)) = Ok y' /\
    0 < k /\ x = k * x' /\ y = k * y'.
Proof.
  intros Hx Hy Hnz. unfold remove_common_factors. cbn [fst snd].
  destruct (collect_mul_sound s l x Hx) as (vl & Fl & Pl).
  destruct (collect_mul_sound s r y Hy) as (vr & Fr & Pr).
  destruct (rcf_loop_sound s _ _ _ _ Fl Fr ltac:(lia)) as (vl1 & vr1 & k1 & Fl1 & Fr1 & Hk1 & Pl1 & Pr1).
  destruct (gcd_step_sound s _ _ _ _ Fl1 Fr1) as (vl2 & vr2 & k2 & Fl2 & Fr2 & Hk2 & Pl2 & Pr2).
  exists (prodz vl2), (prodz vr2), (k1 * k2).
  split; [now apply reduce_mul_sound|]. split; [now apply reduce_mul_sound|].
  split; [nia|]. split.
  - rewrite <- Pl, Pl1, Pl2. ring.
  - rewrite <- Pr, Pr1, Pr2. ring.
Qed.

(* ------------------------------------------------------------------ Div *)
(* x / c1 / c2 => x / (c1 * c2): only for constants whose product is representable *)
Lemma nest_div_sound s x c1 c2 z e' :
  evalR s (Div (Div x c1) c2) = Ok z -> nest_div cfg_fixed x c1 c2 = Some e' ->
  evalR s e' = Ok z.
Proof.
  intros H S. pose proof H as H0. unfold nest_div in S. cbn [fm guard cfg_fixed] in S.
  apply evalR_div_inv in H as (q1 & b & Hq & Hb & Iq & Ib & Hb0 & -> & Iz).
  apply evalR_div_inv in Hq as (vx & a & Hx & Ha & Ix & Ia & Ha0 & -> & _).
  destruct (is_val c1) as [a'|] eqn:V1; [destruct (is_val c2) as [b'|] eqn:V2|];
    try (inversion S; subst; exact H0).
  apply is_val_some in V1, V2. subst.
  apply evalR_value_inv in Ha as [-> _]. apply evalR_value_inv in Hb as [-> _].
  replace (negb (a' =? 0) && negb (b' =? 0)) with true in S by lia.
  rewrite fold_checked in S. destruct (in_i32 (a' * b')) eqn:E; inversion S; subst; [|exact H0].
  apply in_i32_iff in E. rewrite Z.quot_quot by assumption.
  apply evalR_div; auto; try nia.
  - now apply evalR_value.
  - rewrite <- Z.quot_quot by assumption. exact Iz.
Qed.

Lemma simp_div_sound s l0 r0 z e' :
  evalR s (Div l0 r0) = Ok z -> simp_div cfg_fixed l0 r0 = Some e' -> evalR s e' = Ok z.
Proof.
  intros H S. unfold simp_div in S. cbn [posg cfg_fixed] in S.
  apply evalR_div_inv in H as (x & y & Hx & Hy & Ix & Iy & Hy0 & -> & Iz).
  destruct (rcf_sound s l0 r0 x y Hx Hy Hy0) as (x' & y' & k & Hx' & Hy' & Hk & -> & ->).
  set (l := fst (remove_common_factors true l0 r0)) in *.
  set (r := snd (remove_common_factors true l0 r0)) in *.
  assert (Hy'0 : y' <> 0) by nia.
  rewrite Z.quot_mul_cancel_l in * by lia.
  (* k > 0: the reduced operands keep their sign and do not grow *)
  assert (Ix' : I32 x') by (unfold I32, i32_min, i32_max in *; nia).
  assert (Iy' : I32 y') by (unfold I32, i32_min, i32_max in *; nia).
  assert (H0 : evalR s (Div l r) = Ok (Z.quot x' y')) by (apply evalR_div; auto).
  destruct (is_const r 1) eqn:Er.
  { (* l / 1 => l *)
    apply is_const_true in Er. rewrite Er in Hy'. apply evalR_value_inv in Hy' as [-> _].
    inversion S; subst. now rewrite Z.quot_1_r. }
  destruct (is_val l) as [a|] eqn:Vl.
  - destruct (is_val r) as [b|] eqn:Vr.
    + (* constant fold *)
      apply is_val_some in Vl, Vr. rewrite Vl in Hx'. rewrite Vr in Hy'.
      apply evalR_value_inv in Hx' as [-> _]. apply evalR_value_inv in Hy' as [-> _].
      replace (b =? 0) with false in S by lia. unfold fold_div in S. cbn [fm cfg_fixed] in S.
      destruct (div_ovf a b); inversion S; subst; [exact H0|]. now apply evalR_value.
    + rewrite (is_val_some _ _ Vl) in S. inversion S; subst. rewrite <- (is_val_some _ _ Vl). exact H0.
  - assert (S' : match l with Div x c1 => nest_div cfg_fixed x c1 r | _ => Some (Div l r) end = Some e')
      by (destruct (is_val r); exact S).
    clear S. destruct l eqn:El; try (inversion S'; subst; exact H0).
    eapply nest_div_sound; eauto.
Qed.

(* -------------------------------------------------------------- DivCeil *)
Lemma dc_dc x a b : a <> 0 -> 0 < b ->
  div_ceil_z (div_ceil_z x a) b = div_ceil_z x (a * b).
Proof.
  intros Ha Hb. rewrite !div_ceil_spec by nia. rewrite Z.opp_involutive.
  now rewrite Z.div_div by lia.
Qed.

Lemma nest_dc_sound s x c1 c2 z e' :
  evalR s (DivCeil (DivCeil x c1) c2) = Ok z -> nest_dc cfg_fixed x c1 c2 = Some e' ->
  evalR s e' = Ok z.
Proof.
  intros H S. pose proof H as H0. unfold nest_dc in S. cbn [fm guard cfg_fixed] in S.
  apply evalR_divceil_inv in H as (q1 & b & Hq & Hb & Iq & Ib & Hb0 & -> & Iz).
  apply evalR_divceil_inv in Hq as (vx & a & Hx & Ha & Ix & Ia & Ha0 & -> & _).
  destruct (is_val c1) as [a'|] eqn:V1; [destruct (is_val c2) as [b'|] eqn:V2|];
    try (inversion S; subst; exact H0).
  apply is_val_some in V1, V2. subst.
  pose proof Ha as Ha'. pose proof Hb as Hb'.
  apply evalR_value_inv in Ha as [-> _]. apply evalR_value_inv in Hb as [-> _].
  destruct ((0 <? a') && (0 <? b')) eqn:Epos.
  - (* both positive: fold the product if representable *)
    rewrite fold_checked in S. destruct (in_i32 (a' * b')) eqn:E; inversion S; subst; [|exact H0].
    apply in_i32_iff in E. rewrite dc_dc in * by lia.
    apply evalR_divceil; auto; try nia. now apply evalR_value.
  - (* outer divisor positive and product representable: keep the product unevaluated *)
    destruct ((0 <? b') && in_i32 (a' * b')) eqn:E; inversion S; subst; [|exact H0].
    apply andb_prop in E as [E1 E2]. apply in_i32_iff in E2. rewrite dc_dc in * by lia.
    apply evalR_divceil; auto; try nia. now apply evalR_mul.
Qed.

Lemma simp_divceil_sound s l r z e' :
  evalR s (DivCeil l r) = Ok z -> simp_divceil cfg_fixed l r = Some e' -> evalR s e' = Ok z.
Proof.
  intros H S. unfold simp_divceil in S. pose proof H as H0.
  apply evalR_divceil_inv in H as (x & y & Hx & Hy & Ix & Iy & Hy0 & -> & Iz).
  destruct (is_const r 1) eqn:Er.
  { (* ceil(l / 1) => l *)
    apply is_const_true in Er. subst. apply evalR_value_inv in Hy as [-> _].
    inversion S; subst. rewrite div_ceil_spec by lia. rewrite Z.div_1_r. now rewrite Z.opp_involutive. }
  set (rest := if expr_eqb l r then Some (Value 1)
               else match l with
                    | DivCeil x c1 => nest_dc cfg_fixed x c1 r
                    | _ => Some (DivCeil l r)
                    end) in *.
  assert (Hrest : rest = Some e' -> evalR s e' = Ok (div_ceil_z x y)).
  { unfold rest. intros R. destruct (expr_eqb l r) eqn:E.
    - (* ceil(x / x) => 1 *)
      inversion R; subst. pose proof (expr_eqb_val _ _ _ _ _ E Hx Hy). subst.
      rewrite div_ceil_spec by assumption.
      replace (- y / y) with (-1) by nia. reflexivity.
    - destruct l; try (inversion R; subst; exact H0). eapply nest_dc_sound; eauto. }
  destruct (is_val l) as [a|] eqn:Vl; [destruct (is_val r) as [b|] eqn:Vr|]; try (now apply Hrest).
  apply is_val_some in Vl, Vr. subst l r.
  apply evalR_value_inv in Hx as [-> _]. apply evalR_value_inv in Hy as [-> _].
  replace (b =? 0) with false in S by lia. unfold fold_div in S. cbn [fm cfg_fixed] in S.
  destruct (div_ovf a b); [now apply Hrest|]. inversion S; subst. now apply evalR_value.
Qed.

(* ------------------------------------------------------------- Max, Min *)
Lemma simp_max_sound s l r z : evalR s (Max l r) = Ok z -> evalR s (simp_max l r) = Ok z.
Proof.
  intros H. pose proof H as H0. unfold simp_max.
  apply evalR_max_inv in H as (x & y & Hx & Hy & Ix & Iy & ->).
  destruct (expr_eqb l r) eqn:E.
  - pose proof (expr_eqb_val _ _ _ _ _ E Hx Hy). subst. now rewrite Z.max_id.
  - destruct (is_val l) as [a|] eqn:Vl; [destruct (is_val r) as [b|] eqn:Vr|]; try exact H0.
    apply is_val_some in Vl, Vr. subst.
    apply evalR_value_inv in Hx as [-> _]. apply evalR_value_inv in Hy as [-> _].
    apply evalR_value. unfold I32 in *. lia.
Qed.
Lemma simp_min_sound s l r z : evalR s (Min l r) = Ok z -> evalR s (simp_min l r) = Ok z.
Proof.
  intros H. pose proof H as H0. unfold simp_min.
  apply evalR_min_inv in H as (x & y & Hx & Hy & Ix & Iy & ->).
  destruct (expr_eqb l r) eqn:E.
  - pose proof (expr_eqb_val _ _ _ _ _ E Hx Hy). subst. now rewrite Z.min_id.
  - destruct (is_val l) as [a|] eqn:Vl; [destruct (is_val r) as [b|] eqn:Vr|]; try exact H0.
    apply is_val_some in Vl, Vr. subst.
    apply evalR_value_inv in Hx as [-> _]. apply evalR_value_inv in Hy as [-> _].
    apply evalR_value. unfold I32 in *. lia.
Qed.

(* ------------------------------------------------------------ Broadcast *)
Lemma simp_bc_sound s l r z : evalR s (Broadcast l r) = Ok z -> evalR s (simp_bc l r) = Ok z.
Proof.
  intros H. pose proof H as H0. unfold simp_bc.
  apply evalR_bc_inv in H as (x & y & Hx & Hy & Ix & Iy & Hp & ->).
  apply bc_pair_ok_spec in Hp.
  destruct (is_val l) as [a|] eqn:Vl; destruct (is_val r) as [b|] eqn:Vr.
  - apply is_val_some in Vl, Vr. subst. pose proof Hx as Hx'. pose proof Hy as Hy'.
    apply evalR_value_inv in Hx as [-> _]. apply evalR_value_inv in Hy as [-> _].
    destruct (a =? b) eqn:E1; [replace (Z.max a b) with a by lia; exact Hx'|].
    destruct (a =? 1) eqn:E2; [replace (Z.max a b) with b by lia; exact Hy'|].
    destruct (b =? 1) eqn:E3; [replace (Z.max a b) with a by lia; exact Hx'|]. lia.
  - apply is_val_some in Vl. subst. pose proof Hx as Hx'. apply evalR_value_inv in Hx as [-> _].
    destruct (a =? 1) eqn:E2; [replace (Z.max a y) with y by lia; exact Hy|].
    replace (Z.max a y) with a by lia. exact Hx'.
  - apply is_val_some in Vr. subst. pose proof Hy as Hy'. apply evalR_value_inv in Hy as [-> _].
    destruct (b =? 1) eqn:E2; [replace (Z.max x b) with x by lia; exact Hx|].
    replace (Z.max x b) with b by lia. exact Hy'.
  - destruct (expr_eqb l r) eqn:E; [|exact H0].
    pose proof (expr_eqb_val _ _ _ _ _ E Hx Hy). subst. now rewrite Z.max_id.
Qed.

(* ------------------------------------------------- simplify_canonical *)
Lemma obind2_some a b f e' :
  obind2 a b f = Some e' -> exists x y, a = Some x /\ b = Some y /\ f x y = Some e'.
Proof. unfold obind2. destruct a, b; try discriminate. eauto. Qed.

Theorem simp_canon_sound s e : forall z e',
  evalR s e = Ok z -> simp_canon cfg_fixed e = Some e' -> evalR s e' = Ok z.
Proof.
  induction e; intros v e' H S; cbn [simp_canon] in S.
  - inversion S; subst; exact H.
  - inversion S; subst; exact H.
  - apply obind2_some in S as (a & b & Sa & Sb & S).
    apply evalR_add_inv in H as (x & y & Hx & Hy & ->).
    eapply simp_add_sound; [|exact S]. apply evalR_add; eauto.
  - apply obind2_some in S as (a & b & Sa & Sb & S).
    apply evalR_sub_inv in H as (x & y & Hx & Hy & ->).
    eapply simp_sub_sound; [|exact S]. apply evalR_sub; eauto.
  - apply obind2_some in S as (a & b & Sa & Sb & S).
    apply evalR_mul_inv in H as (x & y & Hx & Hy & ->).
    eapply simp_mul_sound; [|exact S]. apply evalR_mul; eauto.
  - apply obind2_some in S as (a & b & Sa & Sb & S).
    apply evalR_div_inv in H as (x & y & Hx & Hy & Ix & Iy & Hy0 & -> & Iz).
    eapply simp_div_sound; [|exact S]. apply evalR_div; eauto.
  - apply obind2_some in S as (a & b & Sa & Sb & S).
    apply evalR_divceil_inv in H as (x & y & Hx & Hy & Ix & Iy & Hy0 & -> & Iz).
    eapply simp_divceil_sound; [|exact S]. apply evalR_divceil; eauto.
  - apply obind2_some in S as (a & b & Sa & Sb & S). inversion S; subst.
    apply evalR_max_inv in H as (x & y & Hx & Hy & Ix & Iy & ->).
    apply simp_max_sound. apply evalR_max; eauto.
  - apply obind2_some in S as (a & b & Sa & Sb & S). inversion S; subst.
    apply evalR_min_inv in H as (x & y & Hx & Hy & Ix & Iy & ->).
    apply simp_min_sound. apply evalR_min; eauto.
  - apply obind2_some in S as (a & b & Sa & Sb & S). inversion S; subst.
    apply evalR_bc_inv in H as (x & y & Hx & Hy & Ix & Iy & Hp & ->).
    apply simp_bc_sound. apply evalR_bc; eauto.
  - destruct (simp_canon cfg_fixed e) as [a|] eqn:Sa; [|discriminate].
    apply evalR_neg_inv in H as (x & Hx & ->).
    eapply simp_neg_sound; [|exact S]. apply evalR_neg; eauto.
Qed.

(* ------------------------------------------------------------- totality *)
Ltac total_step :=
  match goal with
  | |- exists e', Some _ = Some e' => eexists; reflexivity
  | |- context [if ?c then _ else _] => destruct c
  | |- context [match ?x with _ => _ end] => destruct x
  end.

Lemma simp_neg_total x : exists e', simp_neg FChecked x = Some e'.
Proof. unfold simp_neg, fold. repeat total_step. Qed.
Lemma simp_add_total l r : exists e', simp_add FChecked l r = Some e'.
Proof. unfold simp_add, fold. repeat total_step. Qed.
Lemma simp_sub_total l r : exists e', simp_sub FChecked l r = Some e'.
Proof. unfold simp_sub, fold. repeat total_step. Qed.
Lemma simp_mul_total l r : exists e', simp_mul FChecked l r = Some e'.
Proof. unfold simp_mul, fold. repeat total_step. Qed.
Lemma nest_div_total x c1 c2 : exists e', nest_div cfg_fixed x c1 c2 = Some e'.
Proof. unfold nest_div, fold. cbn [fm guard cfg_fixed]. repeat total_step. Qed.
Lemma nest_dc_total x c1 c2 : exists e', nest_dc cfg_fixed x c1 c2 = Some e'.
Proof. unfold nest_dc, fold. cbn [fm guard cfg_fixed]. repeat total_step. Qed.
Lemma simp_div_total l r : exists e', simp_div cfg_fixed l r = Some e'.
Proof.
  unfold simp_div, fold_div. cbn [fm posg cfg_fixed].
  generalize (fst (remove_common_factors true l r)) (snd (remove_common_factors true l r)). intros a b.
  destruct (is_const b 1); [eexists; reflexivity|].
  destruct (is_val a); [destruct (is_val b)|].
  - destruct (_ =? 0); [eexists; reflexivity|]. destruct (div_ovf _ _); eexists; reflexivity.
  - destruct a; try (eexists; reflexivity). apply nest_div_total.
  - destruct a; try (eexists; reflexivity). apply nest_div_total.
Qed.
Lemma simp_divceil_total l r : exists e', simp_divceil cfg_fixed l r = Some e'.
Proof.
  unfold simp_divceil, fold_div. cbn [fm cfg_fixed].
  destruct (is_const r 1); [eexists; reflexivity|].
  assert (R : exists e', (if expr_eqb l r then Some (Value 1)
               else match l with
                    | DivCeil x c1 => nest_dc cfg_fixed x c1 r
                    | _ => Some (DivCeil l r)
                    end) = Some e').
  { destruct (expr_eqb l r); [eexists; reflexivity|].
    destruct l; try (eexists; reflexivity). apply nest_dc_total. }
  destruct (is_val l); [destruct (is_val r)|]; try exact R.
  destruct (_ =? 0); [exact R|]. destruct (div_ovf _ _); [exact R|eexists; reflexivity].
Qed.

Theorem simp_canon_total e : exists e', simp_canon cfg_fixed e = Some e'.
Proof.
  induction e; cbn [simp_canon]; try (eexists; reflexivity);
    try (destruct IHe1 as [a ->]; destruct IHe2 as [b ->]; cbn [obind2]).
  - apply simp_add_total.
  - apply simp_sub_total.
  - apply simp_mul_total.
  - apply simp_div_total.
  - apply simp_divceil_total.
  - eexists; reflexivity.
  - eexists; reflexivity.
  - eexists; reflexivity.
  - destruct IHe as [a ->]. apply simp_neg_total.
Qed.

(* ------------------------------------------------------ end-to-end *)
Theorem simplify_total e : exists e', simplify_gen cfg_fixed e = Some e'.
Proof. unfold simplify_gen. apply simp_canon_total. Qed.

Lemma simplify_gen_simplify e : simplify_gen cfg_fixed e = Some (simplify e).
Proof. unfold simplify. destruct (simplify_total e) as [e' ->]. reflexivity. Qed.

Theorem simplify_evalR s e z : evalR s e = Ok z -> evalR s (simplify e) = Ok z.
Proof.
  intros H. pose proof (simplify_gen_simplify e) as S. unfold simplify_gen in S.
  eapply simp_canon_sound; [|exact S]. now apply canon_sound.
Qed.

(* If the original expression evaluates without overflow or division by zero, the Broadcast
   precondition holds and symbols declared positive are non-negative, the simplified
   expression evaluates (i32 arithmetic as in a release build) to the same value. *)
Theorem simplify_sound s e v :
  eval s e = Ok v -> bcast_ok s e = true -> pos_ok s e = true -> evalw s (simplify e) = Ok v.
Proof.
  intros H Hb Hp. pose proof (evalm_range _ _ _ _ H) as Iv.
  apply evalR_of_eval in H; [|exact Hb|exact Hp]. apply simplify_evalR in H.
  apply evalw_of_evalR in H. now rewrite wrap32_id in H.
Qed.
