"""C21 -- External tensor data cannot escape the model directory or its file bounds (DESIGN.md section 2, C21)."""
import os
import vf

META = {
    "claimed": True,
    "text": ("Coq theorems over a Gallina model of src/model/external_data.rs: (a) is_allowed_external_data_path accepts exactly "
             "a single plain file name (no separator, not '.'/'..', recognised 'data*'/'onnx_data*' extension), optionally followed "
             "by '/' and '/.' noise that std's component iteration drops, and PathBuf::push of an accepted location onto an "
             "absolute model directory yields that directory's components plus exactly one Normal component; (b) for the "
             "in-memory, mmap and file loaders, for ALL u64 offset/length pairs (saturating and wrapping sums modelled, debug "
             "and release builds) and every file no longer than isize::MAX, a successful load returns exactly "
             "file[offset, offset+length) inside the file, every out-of-range or disallowed request is a load error, and the "
             "panic/abort/fuel outcomes of the model are unreachable; FileLoader's chunked read loop is proved to return the "
             "requested bytes for every positive chunk size. The model is tied to the code end to end through the public API "
             "(ModelOptions::external_data+load, load_file, load_mmap on harness-written ONNX models with an external-data "
             "initializer, in release and debug builds): outcomes (bytes obtained / error kind / required+actual lengths) and "
             "std::path's components()/extension() are compared with the model inside Coq on every run, and the "
             "implementation's own outcomes are checked against an independent property oracle (lexical direct child, "
             "exact byte range)."),
    "note": ("Trusted: Coq kernel; hand model of libstd's Unix std::path (components, extension, push) -- compared with the real "
             "libstd on every case; the OS (what open() of dir/<name> resolves to, symlinks, lseek/read/mmap behaviour: the "
             "model takes the file-system answer as an input); the ONNX protobuf decoder and tensor construction between the "
             "loader and the observed output; the correspondence sample (a test, not a proof). Finding F21.1 (FileLoader "
             "aborted the process on a huge declared length) is fixed in the tree the theorems describe."),
    "technique": "Coq proof (induction over path bytes / read-loop fuel, N arithmetic) + end-to-end model/implementation correspondence",
}
GROUP = "extdata"
REQ = "From RV Require Import Prelude.\nFrom ExtData Require Import ExtData.\nOpen Scope N_scope."
THEOREMS = ["C21_allowed_is_plain_filename", "C21_plain_filename_allowed", "C21_join_stays_in_dir",
            "C21_load_in_bounds", "C21_load_total", "C21_out_of_range_is_error", "C21_disallowed_is_error",
            "C21_read_loop_spec", "C21_prop_ok_sound", "C21_lex_child_sound", "C21_allowed_implies_lex_child",
            "C21_nonvacuous"]


def main(ctx):
    ctx.rule = ("every location of a fixed pool (valid names, traversal, absolute, Windows-style, NUL, unicode, trailing "
                "'/' and '/.') through all three loaders; exhaustive token sequences over {'/','.','a','data','onnx_data'} "
                "up to length 4 (quick) / 6 (thorough); offset/length grids around each file's length, the 8192-byte chunk "
                "size, 2^31, 2^32, 2^63, 2^64-1 and wrapping sums; seeded random mutated locations x ranges; both build "
                "profiles. A case is trivial when the location is empty; distinct = distinct (loader, location, key, offset, length)")
    ctx.trusted += ["modelled, not verified: libstd std::path (components/extension/push, Unix) -- hand model, compared on every case",
                    "OS path resolution, symlinks, open/lseek/read/mmap semantics: file-system answer is an input of the model",
                    "rten-onnx protobuf decoding, tensor construction and Model::run between the loader and the observed bytes",
                    "memmap2 crate (mmap loader)"]
    ctx.assumptions += ["files are no longer than isize::MAX bytes (Rust slice invariant)",
                        "the model directory contains no symlinks (lexical containment only)"]
    ctx.audit(GROUP)
    failed = ctx.prove(GROUP, "Props_C21", THEOREMS)
    env = {"C21_DIR": os.path.join(vf.CACHE, "c21-work")}
    inputs = ctx.replay_inputs()
    profiles = [p for p in os.environ.get("VERIF_PROFILES", "release,debug").split(",") if p in ("release", "debug")]
    for profile in profiles:   # VERIF_PROFILES=release restricts a development / mutation run to one build
        bindir = ctx.harness(GROUP, profile=profile, bins=["c21"], hooks=False)
        if inputs is None:
            # one generated input set (from the release binary), executed in both profiles
            rc, out = vf.sh([os.path.join(bindir, "c21"), "gen", str(ctx.seed), str(ctx.n(600, 12000)), ctx.tier], timeout=600)
            if rc != 0:
                raise vf.CheckerBroken("c21 gen failed: " + out[-400:])
            inputs = [l for l in out.split("\n") if l.strip()]
        ins = inputs
        if profile == "debug" and not ctx.replay_path:
            # the debug build only differs in overflow behaviour: run the range grids and a slice of the rest
            ins = [l for i, l in enumerate(inputs) if l.split("|")[3] != "0" or l.split("|")[4] not in ("4", "5", "6") or i % 7 == 0]
            ins = ins[: ctx.n(1000, 15000)]
        cases = ctx.gen_exec(bindir, "c21", 0, inputs=ins, env=env)
        ctx.correspond("external_data[%s]" % profile, GROUP, REQ, cases, show="show",
                       fn_name="ExtData.load / ExtData.allowed / ExtData.components (%s build)" % profile)
    if failed and not ctx.violations:
        ctx.proof_broken(failed, "all correspondence cases of this run")
