"""C21 -- External tensor data cannot escape the model directory or its file bounds (DESIGN.md section 2, C21)."""
import os
import vf

META = {
    "claimed": True,
    "text": "TODO",
    "note": "TODO",
    "technique": "Coq proof + model/implementation correspondence",
}
GROUP = "extdata"
REQ = "From RV Require Import Prelude.\nFrom ExtData Require Import ExtData.\nOpen Scope N_scope."
THEOREMS = []


def classify(case):
    return None


def main(ctx):
    ctx.audit(GROUP)
    failed = ctx.prove(GROUP, "Props_C21", THEOREMS) if THEOREMS else []
    env = {"C21_DIR": os.path.join(vf.CACHE, "c21-work")}
    for profile in ("release", "debug"):
        if profile == "debug" and os.environ.get("C21_SKIP_DEBUG"):
            continue
        bindir = ctx.harness(GROUP, profile=profile, bins=["c21"], hooks=False)
        n = ctx.n(1500, 40000) if profile == "release" else ctx.n(300, 4000)
        cases = ctx.gen_exec(bindir, "c21", n, inputs=ctx.replay_inputs(), env=env)
        ctx.correspond("external_data[%s]" % profile, GROUP, REQ, cases, classify=classify, show="show",
                       fn_name="ExtData.load / ExtData.allowed / ExtData.components (%s build)" % profile)
    if failed and not ctx.violations:
        ctx.proof_broken(failed, "all correspondence cases of this run")
