"""C15 -- Operators conform to ONNX reference semantics (DESIGN.md section 2, C15)."""
import hashlib
import os
import re
import vf

META = {
    "claimed": True,
    "text": ("Scope: the integer/boolean/integer-valued-float operators listed below; the Gallina reference is the oracle (no ONNX "
             "reference implementation exists in this sandbox). Coq: an executable reference over Z-valued tensors (shape + row-major "
             "data) for broadcasting Add/Sub/Mul/Div/Mod/Pow, comparisons, And/Or/Xor/Not, Where, Transpose, Reshape, Squeeze, Unsqueeze, "
             "Concat, Split, Slice, Gather, GatherElements, GatherND, Expand, Tile, Pad, Reduce{Sum,Prod,Max,Min,SumSquare,L1}, "
             "ArgMax/ArgMin, CumSum, Trilu, Range, OneHot, TopK, MatMul, Gemm, ScatterElements, ScatterND, MaxPool(2-D), Clip, Relu, LeakyRelu, variadic Max/Min/Sum (Floor/Ceil/Round, IsNaN/IsInf only on "
             "integer-valued floats); each definition is PROVED, for "
             "all shapes/attributes in the specification's domain, to satisfy an index-level statement transcribed from the ONNX operator "
             "text (forall valid output index: the source index is in bounds and out[idx] = ...), plus shape lemmas. Tie: single-operator "
             "ONNX models written by the harness (attributes incl. negative axes/steps/modes/keepdims, opset variants where parameters "
             "moved from attributes to inputs, i32/i64/bool/integer-valued f32 data as run inputs or initializers, rank <= 4, dims <= 5 "
             "incl. 0 and 1) are loaded with Model::load and run; output shapes, element kinds and values are compared EXACTLY with the "
             "reference inside Coq. Float-only operators (unary math, Softmax, normalisations, Resize, Conv, AveragePool, Einsum, "
             "quantisation, RNNs) are outside the proof and are NOT exercised by this check; corners where the ONNX text and the ONNX "
             "reference implementation disagree are left undefined (docs/C15.md)."),
    "note": ("Trusted: Coq kernel; the transcription of the ONNX operator text into the spec statements; the harness (protobuf writer, "
             "canonical printing); the correspondence sample (a test). i64/bool are represented as i32 (i64 saturating) by design; values "
             "are kept inside the exactly-representable sub-domain (i32 range, |v| <= 2^24 for f32) and the reference is undefined outside "
             "it. Where the reference is undefined (specification gives no result, or rten documents the setting as unsupported) any "
             "behaviour of rten is accepted."),
    "technique": "Coq proof (index-level operator specifications over tabulated tensors) + model/implementation correspondence through Model::load/run",
}
GROUP = "onnxref"
REQ = ("From Coq Require Import String Uint63.\nFrom RV Require Import Prelude.\n"
       "From OnnxRef Require Import RefBase OnnxRef ModelC15.\nOpen Scope string_scope.\nOpen Scope uint63_scope.")
THEOREMS = [
    "C15_get_tab", "C15_tabo_spec", "C15_nth_all_idx", "C15_In_all_idx",
    "C15_NoDup_all_idx", "C15_norm_axis_spec", "C15_bshape_spec", "C15_bidx_valid",
    "C15_bidx_coords", "C15_binop_spec", "C15_binop_defined", "C15_where_spec",
    "C15_get_unop", "C15_div_trunc_spec", "C15_mod_int_spec", "C15_mod_fmod_spec",
    "C15_pow_spec", "C15_compare_spec", "C15_transpose_spec", "C15_expand_spec",
    "C15_tile_spec", "C15_concat_spec", "C15_split_sizes_sum", "C15_split_sizes_equal",
    "C15_split_spec", "C15_slice_start_range", "C15_slice_end_range", "C15_slice_len_spec",
    "C15_slice_in_bounds", "C15_nth_slice_params", "C15_nth_slice_src", "C15_slice_spec",
    "C15_pad_src_in_bounds", "C15_nth_pad_params", "C15_pad_spec", "C15_norm_idx_spec",
    "C15_gather_spec", "C15_gather_elements_spec", "C15_gather_nd_spec", "C15_scatter_apply_spec",
    "C15_scatter_elements_spec", "C15_scatter_nd_spec", "C15_red_fold_spec", "C15_reduce_spec",
    "C15_reduce_op_spec", "C15_arg_reduce_spec", "C15_cumsum_range_spec", "C15_cumsum_spec",
    "C15_trilu_spec", "C15_range_spec", "C15_onehot_spec", "C15_matmul_spec",
    "C15_gemm_spec", "C15_reshape_spec", "C15_squeeze_spec", "C15_unsqueeze_spec",
    "C15_topk_list_spec", "C15_topk_spec", "C15_pool_window_spec", "C15_maxpool2d_spec",
    "C15_clip_val_spec", "C15_clip_spec", "C15_relu_leaky_spec", "C15_variadic_spec",
    "C15_out_eqb_spec", "C15_prop_ok_reflect", "C15_sign_zero_refuted", "C15_sign_of_zero",
    "C15_nonvacuous_slice_negative_step", "C15_nonvacuous_broadcast_mod", "C15_nonvacuous_reduce_argmax", "C15_nonvacuous_run_ref",
]


def classify(case):
    """F150: f32 Sign of a zero element (recorded known finding; pinned by rten's unit test test_sign)."""
    p = case["input"].split()
    if p and p[0] == "Sign" and "f32" in p:
        i = p.index("f32")
        vals = p[i + 2].split(",") if len(p) > i + 2 else []
        if "0" in vals:
            return "F150"
    return None


def evaluate(ctx, name, cases):
    """Own correspondence loop (single oracle prop_ok = agreement with the reference wherever it is
    defined) that also counts how many cases the reference defines, per operator."""
    terms = [c["term"] for c in cases]
    for c in cases:
        ctx.evals += 1
        t = c.get("tag", "")
        ctx.hist[t] = ctx.hist.get(t, 0) + 1
        if not t.startswith("trivial"):
            ctx.distinct.add(hashlib.sha1(c["input"].encode()).hexdigest())
    for c in cases[:3]:
        if len(ctx.samples) < 12:
            ctx.samples.append({"check": name, "input": c["input"][:400], "tag": c.get("tag", "")})
    shard = max(150, -(-len(terms) // vf.NCPU))   # few, large shards: loading the libraries dominates small ones
    undef, pf, err = ctx.coq_eval_cases(GROUP, REQ, terms, "defined", "prop_ok", shard=shard, timeout=3000, tag=re.sub(r"\W", "", name)[:12])
    if err:
        raise vf.CheckerBroken("model evaluation failed for %s: %s" % (name, err))
    per_op = {}
    uset = set(undef)
    for i, c in enumerate(cases):
        op = c["input"].split(" ", 1)[0]
        d = per_op.setdefault(op, [0, 0])
        d[0] += 1
        d[1] += 0 if i in uset else 1
    ctx.corr.append({"name": name, "cases": len(cases), "reference_defined": len(cases) - len(undef), "property_failures": len(pf)})
    ctx.extra.setdefault("defined_per_operator", {}).update({k: {"cases": v[0], "reference_defined": v[1]} for k, v in sorted(per_op.items())})
    ctx.log("correspondence %s: %d cases, reference defined on %d, %d property failures" % (name, len(cases), len(cases) - len(undef), len(pf)))
    reported = 0
    seen_known = set()
    seen_ops = set()
    for i in pf:
        c = cases[i]
        fid = classify(c)
        if fid and ctx._is_known(fid):
            if fid not in seen_known:
                seen_known.add(fid)
                ctx.known(fid)
            continue
        op = c["input"].split(" ", 1)[0]
        if reported < 8 and op not in seen_ops:
            seen_ops.add(op)
            detail = ctx.coq_eval_show(GROUP, REQ, "show (%s)" % c["term"])
            ctx.violation({"kind": "property-failure", "check": name, "input": c["input"], "coq_case": c["term"],
                           "explain": "rten's outcome on this single-operator model differs from the ONNX reference (OnnxRef.run_ref), which is defined here",
                           "model_says": detail})
            reported += 1
    return undef, pf


def main(ctx):
    ctx.rule = ("per operator generator (harness/onnxref/src/bin/generators.rs): random shapes rank<=4, dims in 0..5, data i32/i64/f32(integer "
                "valued)/bool as run inputs or initializers, attributes incl. negative axes, steps, modes, keepdims, opset variants "
                "(attribute vs input parameters), optimisation on/off, ~2% invalid/extreme parameters; about 1 case in 9 is a LONG-LANE variant "
                "(one axis of 17..70, other extents 1..2; TopK with a 3-letter alphabet so that ties straddle k; ArgMax/ArgMin, Reduce*, "
                "CumSum, Gather*, ScatterElements, Slice, Concat, Split, Transpose, element-wise); binary operators have an EDGE-ALGEBRA "
                "family (zero results, negative operands, dividends that are exact multiples k*divisor of divisors of both signs incl. 0, "
                "equal comparison operands) and Div/Mod a dedicated generator; non-trivial = every case (tags "
                "ending in -empty have an empty first input); distinct = distinct case lines")
    ctx.trusted += ["the ONNX operator specification text as transcribed into the *_spec theorems (Props_C15.v)",
                    "protobuf writer + canonical printing in harness/onnxref (trusted to build the node it names)",
                    "not modelled: float-only operators, Conv/pooling/normalisation/Resize/Einsum/quantisation operators"]
    ctx.assumptions += ["values inside the exactly-representable sub-domain: i32 range (i64 saturates to i32 by design), |v| <= 2^24 for f32"]
    ctx.audit(GROUP)
    failed = ctx.prove(GROUP, "Props_C15", THEOREMS) if THEOREMS else []
    bindir = ctx.harness(GROUP, profile="release", bins=["c15"], hooks=False)
    ok, out = ctx.make(GROUP, ["ModelC15.vo"])
    if not ok:
        raise vf.CheckerBroken("model does not compile: " + out[-800:])
    only = os.environ.get("C15_ONLY")
    n = int(os.environ.get("C15_N", ctx.n(1600, 16000)))
    cases = ctx.gen_exec(bindir, "c15", n, extra_gen=[only] if only else [], inputs=ctx.replay_inputs(),
                         env={"RTEN_NUM_THREADS": "2"})
    undef, pf = evaluate(ctx, "onnx-single-operator", cases)
    if os.environ.get("C15_DEBUG"):
        for i in pf[:int(os.environ["C15_DEBUG"])]:
            print("FAIL", cases[i]["input"])
            print("     ", cases[i]["term"].split("c_impl := ")[1][:300])
    if failed and not ctx.violations:
        ctx.proof_broken(failed, "all correspondence cases of this run")
