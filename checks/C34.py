"""C34 -- Tensor file formats round-trip and reject malformed files (DESIGN.md section 2, C34)."""
import os
import vf

META = {
    "claimed": True,
    "text": "TODO",
    "note": "TODO",
    "technique": "Coq proof + model/implementation correspondence",
}
GROUP = "npy"
REQ = "From RV Require Import Prelude.\nFrom Npy Require Import Npy.\nOpen Scope N_scope."
THEOREMS = []
F_CAP = "F34.1"


def classify(case):
    # the only recorded known finding: tensors of >= 4 GiB cannot be read back (size cap in read_typed)
    if case["input"].startswith("G|") and "ETooLarge" in case["term"]:
        return F_CAP
    return None


def main(ctx):
    ctx.audit(GROUP)
    failed = ctx.prove(GROUP, "Props_C34", THEOREMS) if THEOREMS else []
    inputs = ctx.replay_inputs()
    for profile in ("release", "debug"):
        if os.environ.get("C34_ONLY") and profile != os.environ["C34_ONLY"]:
            continue
        bindir = ctx.harness(GROUP, profile=profile, bins=["c34"], hooks=False)
        if inputs is None:
            rc, out = vf.sh([os.path.join(bindir, "c34"), "gen", str(ctx.seed), str(ctx.n(800, 40000)), ctx.tier], timeout=600)
            if rc != 0:
                raise vf.CheckerBroken("c34 gen failed: " + out[-400:])
            inputs = [l for l in out.split("\n") if l.strip()]
        ins = inputs
        if profile == "debug" and not ctx.replay_path:
            ins = [l for l in inputs if not l.startswith("G|")]
        cases = ctx.gen_exec(bindir, "c34", 0, inputs=ins)
        ctx.correspond("npy[%s]" % profile, GROUP, REQ, cases, classify=classify, show="show", shard=250,
                       fn_name="Npy.read / Npy.write (%s build)" % profile)
    if failed and not ctx.violations:
        ctx.proof_broken(failed, "all correspondence cases of this run")
