"""C34 -- Tensor file formats round-trip and reject malformed files (DESIGN.md section 2, C34)."""
import os
import vf

META = {
    "claimed": True,
    "text": ("Coq theorems over a Gallina model of rten-serialize/src/npy.rs (+ npy/dtype.rs): (a) round trip -- for every "
             "supported dtype, every shape (any rank, 0-d, empty) and every element list of matching length, in release and "
             "overflow-checked builds, npy::read(npy::write(t)) returns the same dtype, shape and elements, provided the writer "
             "succeeded (it refuses exactly the headers that do not fit the u16 length field), the data is below the reader's "
             "4 GiB cap and the product of the non-zero dimensions fits usize; (b) totality -- on ALL byte strings the reader "
             "terminates (fuel never runs out) and returns a value or an error; the model's Panic outcomes (overflowing usize "
             "arithmetic in stride/length computations, Tensor::from_data length mismatch, `descr[2..]` off a char boundary) are "
             "unreachable; accepted files are well-formed; (c) the written header is 64-byte aligned; npz member naming and the "
             "safetensors dtype map are lossless. The model (header text builder, Python-dict-literal parser, UTF-8 check, descr "
             "parser, checked size arithmetic, LE/BE codecs, Fortran-order conversion) is tied to the code by comparing, inside "
             "Coq, written bytes and read outcomes (dtype, shape, element bit patterns, error kind) for round trips over all "
             "dtypes x shapes x source layouts (contiguous, transposed, strided, broadcast) and for a malformed stream "
             "(handcrafted header edge cases, every truncation, mutations, random bytes), in release and debug builds. "
             ".npz and .safetensors are exercised through the public API only (round trips, member names, dtype strings, "
             "mutated archives must yield Ok/Err)."),
    "note": ("Trusted: Coq kernel; hand models of core::str::from_utf8, usize::from_str/to_string, io::Read on slices; "
             "TensorView::iter yielding logical order (C07); Tensor::from_data / reshaped modelled by their stride and length "
             "arithmetic only; the zip and safetensors crates and their JSON parser (not modelled: partial); the correspondence "
             "sample (a test, not a proof). Known finding F34.1: tensors of more than u32::MAX bytes are written but cannot be "
             "read back (allocation cap) -- excluded by hypothesis and reproduced on every run. Finding F34.2 (overflow panic on "
             "shapes like (0, 2^63, 2^63)) is fixed in the tree the theorems describe."),
    "technique": "Coq proof (fuel-indexed parser with progress lemmas, N arithmetic, evaluation on the concrete header text) + model/implementation correspondence",
}
GROUP = "npy"
REQ = "From RV Require Import Prelude.\nFrom Coq Require Import String.\nFrom Npy Require Import Npy.\nOpen Scope N_scope."
THEOREMS = ["C34_npy_roundtrip", "C34_parse_total", "C34_read_ok_shape", "C34_header_aligned", "C34_write_ok_iff",
            "C34_npz_name_roundtrip", "C34_st_dtype_roundtrip", "C34_large_tensor_rejected",
            "C34_roundtrip_refuted_above_4GiB", "C34_prop_ok_sound", "C34_npz_key_is_spec", "C34_nonvacuous"]
F_CAP = "F34.1"


def classify(case):
    # the only recorded known finding: a tensor of more than u32::MAX bytes is rejected by the reader's size cap.
    # Matched on the specific input class (G| lines: >= 4 GiB tensors) and the specific error.
    if case["input"].startswith("G|") and "(RErr ETooLarge)" in case["term"]:
        return F_CAP
    return None


def main(ctx):
    ctx.rule = ("round trips: 11 dtypes x 25 shapes (0-d, empty, rank<=4, header-padding boundaries) plus a header-length sweep (shape [k,1,...,1], rank 2-25, every residue of the unpadded header length mod 64, npy and npz) x 4 source layouts "
                "(contiguous/transposed/strided/broadcast) through npy (all) and npz/safetensors (a fifth in quick, all in "
                "thorough) with varied member names; multi-entry npz/safetensors archives (1-8 entries; names with one "
                "and several dots, '.npy' suffixes, leading/trailing dots, unicode, 300-byte names, colliding and empty "
                "names) read back with read and read_array; malformed .npy stream: ~700 handcrafted headers (descr, shape, huge "
                "values, fortran_order, versions 1-3, length field, UTF-8, data length), every truncation of valid files, "
                "seeded mutations, grammar-alphabet noise and random bytes; mutated/truncated npz and safetensors archives. "
                "A case is trivial for empty 1-d round trips; distinct = distinct input line")
    ctx.trusted += ["modelled, not verified: core::str::from_utf8, <usize as FromStr>::from_str, usize::to_string, io::Read for &[u8]/Take, BufWriter",
                    "rten-tensor: TensorView::iter order (C07), Tensor::from_data / from_vec / reshaped / permuted / to_vec (modelled by their stride and length arithmetic)",
                    "third-party, not modelled: zip 8.6 (npz archives), safetensors 0.8 + its JSON parser; only exercised through the public API",
                    "element values are compared as bit patterns (floats never as rounded values)"]
    ctx.assumptions += ["64-bit little-endian target (usize = u64; '=' byte order means little-endian)",
                        "round trip: data size <= u32::MAX bytes (known finding F34.1) and product of non-zero dimensions < 2^64"]
    ctx.audit(GROUP)
    failed = ctx.prove(GROUP, "Props_C34", THEOREMS)
    inputs = ctx.replay_inputs()
    profiles = [p for p in os.environ.get("VERIF_PROFILES", "release,debug").split(",") if p in ("release", "debug")]
    for profile in profiles:   # VERIF_PROFILES=release restricts a development / mutation run to one build
        bindir = ctx.harness(GROUP, profile=profile, bins=["c34"], hooks=False)
        if inputs is None:
            rc, out = vf.sh([os.path.join(bindir, "c34"), "gen", str(ctx.seed), str(ctx.n(600, 12000)), ctx.tier], timeout=600)
            if rc != 0:
                raise vf.CheckerBroken("c34 gen failed: " + out[-400:])
            inputs = [l for l in out.split("\n") if l.strip()]
        ins = inputs
        if profile == "debug" and not ctx.replay_path:
            # >= 4 GiB writes take minutes without optimisation; the debug build differs only in overflow
            # behaviour, which the malformed stream and a third of the round trips cover
            ins = [l for i, l in enumerate(inputs) if not l.startswith("G|") and (not l.startswith("T|") or i % 3 == 0)]
        cases = ctx.gen_exec(bindir, "c34", 0, inputs=ins)
        ctx.correspond("npy[%s]" % profile, GROUP, REQ, cases, classify=classify, show="show", shard=200,
                       fn_name="Npy.read / Npy.write (%s build)" % profile)
    if failed and not ctx.violations:
        ctx.proof_broken(failed, "all correspondence cases of this run")
