"""C02 -- Run results are independent of execution strategy."""
import vf

META = {
    "claimed": False,
    "text": "work in progress",
    "note": "",
    "technique": "Coq proof (simulation invariant between a heap-level executor and naive evaluation) + model/implementation correspondence",
}
GROUP = "exec"
REQ = ("From RV Require Import Prelude.\nFrom Planner Require Import Graph.\n"
       "From Exec Require Import ExecModel ModelTestOps.\nOpen Scope N_scope.")
THEOREMS = ["C02_run_plan_refines_naive", "C02_no_use_after_free", "C02_run_refines_naive",
            "C02_strategy_irrelevant", "C02_in_place_choice_irrelevant", "C02_pool_irrelevant",
            "C02_owned_vs_borrowed_irrelevant", "C02_naive_eval_order_independent",
            "C02_test_operators_meet_contract", "C02_prop_ok_reflect", "C02_nonvacuous"]


def main(ctx):
    ctx.audit(GROUP, "planner")
    failed = ctx.prove(GROUP, "Props_C02", THEOREMS) if THEOREMS else []
    bindir = ctx.harness(GROUP, profile="release", bins=["c02"])
    cases = ctx.gen_exec(bindir, "c02", ctx.n(300, 6000), inputs=ctx.replay_inputs())
    ctx.correspond("Graph::run-vs-naive_eval", GROUP, REQ, cases, agree="prop_ok", prop_ok="prop_ok", show="show",
                   shard=40, fn_name="Exec.ExecModel.naive_eval (outputs under every strategy)")
    dis, _, err = ctx.coq_eval_cases(GROUP, REQ, [c["term"] for c in cases], "agree", "prop_ok", 40, tag="det")
    ctx.extra["executor_model_disagreements"] = (len(dis) if not err else "evaluation error: " + str(err)[:300])
    if dis:
        ctx.log("note: %d case(s) deviate from the deterministic model of today's executor (in-place policy); first: %s"
                % (len(dis), cases[dis[0]]["input"][:300]))
    if failed and not ctx.violations:
        ctx.proof_broken(failed, "all correspondence cases of this run")
