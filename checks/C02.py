"""C02 -- Run results are independent of execution strategy."""
import vf

META = {
    "claimed": True,
    "text": ("Coq theorems over a HEAP-level model of Graph::run_plan (src/graph.rs): buffers, temp_values as an ownership map, the u8 "
             "NodeRefCount with sticky saturation, owned vs borrowed inputs, the in-place decision (refcount==1 and owned), the commutative "
             "operand choice, take_value, by-value capture extraction, release to the pool at refcount 0, pool reuse of released buffers, "
             "output extraction; reads of released buffers and the executor's panics are distinct outcomes. Proved for ALL graphs, plans, "
             "inputs and operator semantics satisfying the run_in_place contract: the executor returns exactly the outcome of the naive "
             "evaluation (every operator on fresh copies, plan order) under EVERY strategy - pool on/off, any subset of operators run in "
             "place, any commutative operand choice, any recycled buffer, any owned/borrowed split of the inputs (C02_run_plan_refines_naive, "
             "C02_run_refines_naive, C02_strategy_irrelevant and the three named corollaries); use-after-release and failed takes are "
             "unreachable (C02_no_use_after_free); the naive evaluation itself does not depend on the order of the plan "
             "(C02_naive_eval_order_independent: two duplicate-free plans over single-producer operators). Refinement pattern: the check "
             "alarms only when the IMPLEMENTATION's outputs differ from naive_eval (prop_ok); agreement with the deterministic model of "
             "today's policy (which operand is taken in place, per step) is recorded as executor_model_disagreements. "
             "Tie: random DAGs of table-driven test operators (integer hashes; in-place capable, commutative, buffer-overwriting, "
             "multi-output, repeated/optional inputs, >=255 uses of one value, run inputs that are also operator outputs, inputs/constants "
             "requested as outputs) on the real Graph::run under owned/borrowed x RTEN_USE_POOL x 1/2/16 threads x never-in-place build. "
             "Second family (run-time differential testing, no proof): hand-encoded ONNX models with MatMul/Gemm/Conv over constant weights "
             "at top level, inside both branches of If (same shapes, different weights, same node ids) and inside Loop bodies (incl. an If "
             "capturing a grandparent value), integer-valued f32 data, through the public Model API with prepack_weights on/off, "
             "optimisation on/off, thread pools of 1/2/16 threads, owned/borrowed inputs: every strategy must return exactly the outputs of "
             "a plain triple-loop reference. "
             "Finding F11b (owned vs borrowed input that is also an operator output) fixed in the tree the check runs against."),
    "note": ("Trusted: Coq kernel; correspondence sample; the Operator::run_in_place contract is a hypothesis (it is C13's subject); thread count, "
             "weight prepacking and the BufferPool's memory reuse are run-time effects, exercised by the two strategy matrices only (no theorem "
             "covers them); the real-operator family's reference and ONNX encoder are harness code; subgraph operators appear as black boxes that read their captures (C24); "
             "order independence is stated for evaluations that succeed (operator errors excluded)."),
    "technique": "Coq proof (simulation invariant between a heap-level executor and naive evaluation; equation-consistency argument for order independence) + model/implementation correspondence",
}
GROUP = "exec"
REQ = ("From RV Require Import Prelude.\nFrom Planner Require Import Graph.\n"
       "From Exec Require Import ExecModel ModelTestOps FanModel.\nOpen Scope N_scope.")
REQ_R = ("From RV Require Import Prelude.\nFrom Planner Require Import Graph.\n"
         "From Exec Require Import ExecModel ModelTestOps RealOpsModel.\nOpen Scope N_scope.\n"
         "Notation case := rcase (only parsing).")
THEOREMS = ["C02_run_plan_refines_naive", "C02_no_use_after_free", "C02_run_refines_naive",
            "C02_strategy_irrelevant", "C02_in_place_choice_irrelevant", "C02_pool_irrelevant",
            "C02_owned_vs_borrowed_irrelevant", "C02_naive_eval_order_independent",
            "C02_test_operators_meet_contract", "C02_prop_ok_reflect", "C02_nonvacuous"]


def one_pass(ctx, name, cases, agree, prop_ok, show, shard, fn_name, classify=None, req=None):
    """Evaluate the informational model-agreement function and the property oracle in ONE Coq pass
    over all cases (case terms are large), then hand only the cases that fail the oracle to
    ctx.correspond (which alarms, classifies known findings and writes replay files).
    Returns the indices on which the implementation deviates from the deterministic model."""
    import hashlib
    req = req or REQ
    dis, pf, err = ctx.coq_eval_cases(GROUP, req, [c["term"] for c in cases], agree, prop_ok, shard, tag="all")
    if err:
        raise vf.CheckerBroken("model evaluation failed for %s: %s" % (name, err))
    bad = set(pf)
    for i, c in enumerate(cases):
        if i in bad:
            continue  # accounted for by ctx.correspond below
        ctx.evals += 1
        t = c.get("tag", "")
        ctx.hist[t] = ctx.hist.get(t, 0) + 1
        if not t.startswith("trivial"):
            ctx.distinct.add(hashlib.sha1(c["input"].encode()).hexdigest())
    for c in cases[:3]:
        if len(ctx.samples) < 12:
            ctx.samples.append({"check": name, "input": c["input"][:400], "tag": c.get("tag", "")})
    ctx.log("correspondence %s: %d cases, %d fail the property oracle, %d deviate from the deterministic model"
            % (name, len(cases), len(pf), len(dis)))
    if pf:
        ctx.correspond(name, GROUP, req, [cases[i] for i in pf], classify=classify, agree=prop_ok, prop_ok=prop_ok,
                       show=show, shard=shard, fn_name=fn_name)
    else:
        ctx.corr.append({"name": name, "cases": len(cases), "disagree": 0, "property_failures": 0})
    return dis


def main(ctx):
    ctx.rule = ("seeded random DAGs (1..14 test operators, arity 0..3, 1..2 outputs, optional/repeated inputs, in-place positions incl. "
                "out-of-range ones, commutative / buffer-overwriting flags) over 1..4 inputs and 0..2 constants, tensors of 1..40 i32 (>=32 "
                "elements go through the BufferPool); 5..8 strategies per case; plus the fan-out family (`F` lines, repeat-encoded terms: a run "
                "input or an intermediate used 255/256/257/300 times by a chain of consumers, some consuming it several times, then a later "
                "in-place capable consumer; 4 per quick run, 10 per thorough run, 4 strategies each) and the corpus; "
                "non-trivial = the plan has at least one operator. Real-operator family: seeded model shapes (m,k,n0,n1 <= 6), flags for "
                "Gemm/MatMul per site, Loop (trip 0..3, optional scan output, optional nested If), Conv path; 9 strategies per case")
    ctx.trusted += ["real-operator family: the naive reference (plain i64 loops for MatMul/Gemm/Conv/If/Loop) and the hand-written ONNX encoder live in the harness",
                    "Operator::run_in_place contract (C13) is assumed of operators; the test operators meet it (C02_test_operators_meet_contract)",
                    "thread pools, prepacked weights and allocator-level buffer reuse are run-time effects (strategy matrix only)"]
    ctx.assumptions += ["requested outputs are distinct and planned operators write value nodes (guaranteed by the planner, C03)"]
    ctx.audit(GROUP, "planner")
    failed = ctx.prove(GROUP, "Props_C02", THEOREMS) if THEOREMS else []
    ok, out = ctx.make(GROUP, ["RealOpsModel.vo", "FanModel.vo"])
    if not ok:
        raise vf.CheckerBroken("RealOpsModel.v does not compile: " + out[-500:])
    bindir = ctx.harness(GROUP, profile="release", bins=["c02", "c02r"])
    replay = ctx.replay_inputs()
    flat_replay = [l for l in replay if not l.startswith("R ")] if replay else None  # incl. fan-out lines `F ...`
    real_replay = [l for l in replay if l.startswith("R ")] if replay else None
    # family 1: table-driven test operators on the crate-private Graph (hook)
    if replay is None or flat_replay:
        cases = ctx.gen_exec(bindir, "c02", ctx.n(200, 1800), inputs=flat_replay)
        dis = one_pass(ctx, "Graph::run-vs-naive_eval", cases, "agree", "prop_ok", "show", 13 if ctx.quick() else 40,
                       "Exec.ExecModel.naive_eval (outputs under every strategy)")
        ctx.extra["executor_model_disagreements"] = len(dis)
        if dis:
            ctx.log("note: %d case(s) deviate from the deterministic model of today's executor (in-place policy); first: %s"
                    % (len(dis), cases[dis[0]]["input"][:300]))
    # family 2: real operators through the public API (Model::run on hand-encoded ONNX): prepack on/off,
    # optimisation on/off, 1/2/16 threads, owned/borrowed inputs -- run-time differential testing
    if replay is None or real_replay:
        rcases = ctx.gen_exec(bindir, "c02r", ctx.n(400, 4000), inputs=real_replay)
        one_pass(ctx, "Model::run-real-operators-strategy-matrix", rcases, "prop_okR", "prop_okR", "showR", 100,
                 "naive reference (triple loop in harness/exec/src/bin/c02r.rs) under prepack/optimise/threads/owned strategies",
                 req=REQ_R)
    if failed and not ctx.violations:
        ctx.proof_broken(failed, "all correspondence cases of this run")
