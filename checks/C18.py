"""C18 -- SIMD instruction sets agree and stay within slice bounds (DESIGN.md section 2, C18)."""
import os
import re
import vf

META = {
    "claimed": True,
    "text": ("PROVED in Coq for every vector length >= 1 (so for the generic 128-bit, AVX2, AVX-512 and any scalable ISA), over a memory "
             "model in which every access outside the slice is a distinct Fault outcome: functional.rs simd_map (in place and "
             "src->dst) and simd_apply::<UNROLL> return exactly `map f xs` for a lane-wise f (chunk-wise image for a cross-lane "
             "op), read and write every index exactly once and never index outside the slice; the partial-vector mask is exactly "
             "`i < remaining`; masked loads return the pad value beyond the end without indexing past it (and a mask one lane too "
             "wide provably faults); simd_iter / simd_iter_pad chunking and the masked fold. Scalar definitions of all integer "
             "primitives (wrapping add/sub/mul, shifts, min/max/clamp, abs/neg, compares, bit ops, select, extend, interleave, "
             "concat, saturating narrow, horizontal sum, masks) on Z with explicit wrap, range theorem, and proofs that the "
             "AVX2/AVX-512 instruction recipes (8-bit mul/shift via 16-bit lanes, unsigned compare via sign flip, pack+permute "
             "narrowing, AVX-512 mask loop) equal them. EXERCISED on every run on every ISA the CPU has (generic, AVX2, AVX-512 "
             "through a dispatch hook), release AND debug profile: 8-bit primitives on ALL operand pairs, 16-bit unary ops on all "
             "values and binary ops on all pairs in the thorough tier (stratified in quick), 32-bit ints and f32 (NaN payloads, "
             "+-inf, -0, subnormals) sampled, compared as bit patterns across ISAs and with the scalar definition (evaluated in "
             "Rust for volume; re-judged by the Coq definitions on a sample and on every Rust-flagged mismatch); slice lengths "
             "0..4*lanes+3 with the slices placed against inaccessible guard pages (mmap/mprotect + SIGSEGV handler) and canaries."),
    "note": ("partial: the meaning of the individual hardware instructions is trusted (recipes are proved from their architectural "
             "meaning on Z, and cross-checked by running them); f32 arithmetic is compared across ISAs and against Rust's scalar "
             "f32 operations, not against a Coq float model (non-rounding f32 ops ARE defined in Coq on bit patterns); mul_add / "
             "poly_eval may round once or twice (documented), both accepted; rten-vecmath ops are bit-compared only between ISAs of "
             "the same FMA class. Guard-page and canary observations are run-time tests. Findings: F50 generic narrow_saturate "
             "panicked (fixed), F51 generic f32 min/max NaN semantics differed from AVX (fixed), F53 generic integer arithmetic "
             "panicked on overflow in overflow-checked builds (fixed), F52 float->int conversion of NaN/out-of-range differs between "
             "generic (saturating) and x86 (0x80000000): known, documented as unspecified."),
    "technique": "Coq proof (induction over chunk structure with an explicit bounds-faulting memory model; finite-domain vm_compute lifted "
                 "by reflection for the sign-flip recipe) + model/implementation correspondence on every ISA",
}
GROUP = "simd"
REQ = "From RV Require Import Prelude.\nFrom Simd Require Import SimdModel.\nOpen Scope Z_scope."
THEOREMS = ["C18_simd_map_spec", "C18_simd_map_src_dst_spec", "C18_simd_map_general", "C18_reads_writes_in_bounds",
            "C18_tail_mask_exact", "C18_masked_tail_load", "C18_masked_tail_store", "C18_off_by_one_mask_faults",
            "C18_simd_apply_spec", "C18_iter_chunks", "C18_iter_pad_spec", "C18_fold_spec", "C18_fold_n_spec", "C18_fold_n_model",
            "C18_lane_ops_in_range", "C18_wrap_is_reduction_mod_2n",
            "C18_mul_i8_via_i16", "C18_mul_u8_via_u16", "C18_shl_8_via_16", "C18_shr_8_via_16",
            "C18_gt_unsigned_via_signed", "C18_avx512_mask_loop", "C18_avx2_narrow_recipe",
            "C18_slice_oracle", "C18_prim_oracle", "C18_model_meets_spec_map", "C18_F52_witness",
            "C18_nonvacuous_map", "C18_nonvacuous_prims"]


def classify(case):
    # F52 (known): float -> int conversion of NaN / out-of-range inputs; the harness tags a case with
    # known-F52 only when the generic ISA returned Rust's saturating cast and the x86 ISAs 0x80000000
    if case.get("tag", "") == "known-F52":
        return "F52"
    return None


def derive_concrete(cases):
    """Input lines that re-run the first mismatch of a sweep as an individual case (concrete replay input)."""
    extra = []
    for c in cases:
        t, inp = c["term"], c["input"].split()
        if t.startswith("(CSweep") and "(Some" in t:
            m = re.search(r"\(Some \(([^,]+), ([^,]+), ([^,]+),", t)
            x, y, z = [v.strip().strip("()") for v in m.groups()]
            extra.append("prim %s %s %s %s %s %s" % (inp[1], inp[2], inp[3], x, y, z))
        elif t.startswith("(CFSweep") and "(Some" in t:
            m = re.search(r"\(Some \((\d+), (\d+), (\d+),", t)
            extra.append("flt %s %s %s %s" % ((inp[1],) + m.groups()))
        elif t.startswith("(CSliceSweep") and "(Some" in t:
            m = re.search(r"\(Some (\d+)%N\)", t)
            extra.append("slice %s %s %s %s %s %s %s" % (inp[1], inp[2], inp[3], inp[4], inp[5], m.group(1), inp[6]))
        elif t.startswith("(CReduceSweep") and "(Some" in t:
            m = re.search(r"\(Some (\d+)%N\)", t)
            extra.append("reduce %s %s %s %s" % (inp[1], inp[2], m.group(1), inp[3]))
    return extra


def main(ctx):
    ctx.rule = ("per ISA available on this CPU (hook rten_simd::verif::dispatch_on): integer lane primitives -- 8-bit: every operand pair "
                "(third operand derived), 16-bit: every value for unary ops, every pair (thorough) or boundary-values x all values + 2^18 "
                "random (quick), 32-bit: boundary cross product + 2^19 (quick) / 2^24 (thorough) random triples, all judged in Rust against "
                "the Rust scalar definition, first mismatch re-run as an individual case judged by the Coq definition; seeded individual "
                "primitives judged directly by the Coq definitions; f32 primitives on all pairs of 60 special bit patterns + random "
                "patterns; whole-vector primitives on random/boundary/lane-index vectors; slice helpers at every length 0..4*lanes+3 "
                "(both ends against guard pages) with a sample of lengths re-judged by the Coq operational model; release and debug "
                "profile. non-trivial = not tagged trivial; distinct = distinct input line")
    ctx.trusted += ["x86 instruction semantics (Intel SDM) for the intrinsics named in avx2.rs / avx512.rs: modelled, not verified",
                    "Rust scalar f32 arithmetic as the scalar definition of the rounding f32 primitives",
                    "guard pages: mmap/mprotect/sigaction declared by hand in harness/simd/src/lib.rs (Linux x86_64 ABI)",
                    "the hook rten-simd/src/verif.rs (copies dispatch.rs's target_feature wrappers)"]
    ctx.audit(GROUP)
    failed = ctx.prove(GROUP, "Props_C18", THEOREMS)
    replay = ctx.replay_inputs()

    all_cases = []
    profiles = ["release", "debug"]
    if replay:
        profiles = ["debug"] if any("#debug" in l for l in replay) else ["release"]
    for profile in profiles:
        bindir = ctx.harness(GROUP, profile=profile, bins=["c18"])
        path = os.path.join(bindir, "c18")
        rc, out = ctx.run_bin(path, ["isas"])
        isas = out.split()
        ctx.extra.setdefault("isas", isas)
        if profile == "release" or replay:
            cases = ctx.gen_exec(bindir, "c18", ctx.n(450, 6000), inputs=replay, timeout=3000)
        else:
            rc, out = ctx.run_bin(path, ["gen", str(ctx.seed), str(ctx.n(100, 1000)), "debug"])
            if rc != 0:
                raise vf.CheckerBroken("c18 gen (debug) failed: " + out[-300:])
            cases = ctx.gen_exec(bindir, "c18", 0, inputs=[l for l in out.split("\n") if l.strip()], timeout=3000)
            for c in cases:
                c["tag"] = "dbg-" + c["tag"] if not c["tag"].startswith("known") else c["tag"]
                c["input"] = c["input"] + " #debug"
        extra = derive_concrete(cases)
        if extra:
            more = ctx.gen_exec(bindir, "c18", 0, inputs=extra, timeout=600)
            if profile == "debug":
                for c in more:
                    c["input"] = c["input"] + " #debug"
            # concrete cases first so that they are the ones reported
            cases = more + cases
        all_cases += cases
    if len(ctx.extra.get("isas", [])) < 3:
        ctx.assumptions.append("this CPU offers only %s: the other ISAs were not exercised on this run" % ctx.extra.get("isas"))
    ctx.extra["sweep_operand_tuples_judged_in_rust"] = sum(
        int(c["term"].split()[4]) for c in all_cases if c["term"].startswith("(CSweep")) + sum(
        int(c["term"].split()[2]) for c in all_cases if c["term"].startswith("(CFSweep"))
    ctx.extra["slice_lengths_run"] = sum(int(c["term"].split()[6]) for c in all_cases if c["term"].startswith("(CSliceSweep"))
    ctx.exhaustive = False
    ctx.correspond("simd-primitives-and-slices", GROUP, REQ, all_cases, classify=classify, show="show", shard=250,
                   fn_name="Simd.SimdModel (lane_op / vec_op / flt_def / model_slice)")
    if failed and not ctx.violations:
        ctx.proof_broken(failed, "all correspondence cases of this run")
