"""C23 -- The buffer pool hands out each buffer once with adequate capacity."""
import vf

META = {
    "claimed": True,
    "text": ("Refinement: an abstract specification spec_run (what the property demands; no policy) with theorems for EVERY accepted trace, "
             "a deterministic model of today's code proved to refine it, and the real BufferPool's traces checked for inclusion in the "
             "specification on every run. Details: Coq theorems over a Gallina state machine of src/buffer_pool.rs (Buffer::{can_fit,layout_match}, BufferPool::{alloc,add}) "
             "whose steps are the pool's atomic critical sections, so 'every finite op sequence' = every interleaving of any number of "
             "threads: a reused buffer has capacity >= requested and an allocation layout equal to Layout::array::<T>(capacity) for the "
             "requested T; in every reachable state each buffer ever created is in exactly one of pool / a holder / freed (no double "
             "hand-out, no double free, nothing lost); add keeps xor frees by min_size; best fit is minimal and the allocator is used only "
             "when nothing fits. Tie: random op sequences on the real BufferPool through its public API (14 element types incl. ZST, "
             "over-aligned, same-size-different-align; min_size 0/1/64/default/1000) compared step by step with the model inside Coq, "
             "plus an independent oracle over the implementation's own answers. Multi-threaded stress (double hand-out / foreign writes) "
             "is a run-time observation only."),
    "note": ("Trusted: Coq kernel; correspondence sample; std::sync::Mutex atomicity, the global allocator and Vec::from_raw_parts "
             "are modelled, not verified; capacity*size_of::<T>() overflow in the bypass test is not modelled (capacities are small)."),
    "technique": "Coq proof (invariant by induction over operation sequences; fold invariant for best fit) + model/implementation correspondence",
}
GROUP = "pool"
REQ = "From RV Require Import Prelude.\nFrom Pool Require Import PoolModel Pins.\nOpen Scope N_scope."
THEOREMS = ["C23_spec_conservation", "C23_spec_exclusive", "C23_spec_reused_ok", "C23_spec_add_once",
            "C23_model_refines_spec",
            "C23_reused_capacity_and_layout", "C23_conservation", "C23_exclusive", "C23_add_kept_or_freed",
            "C23_best_fit_minimal", "C23_fresh_only_if_no_fit", "C23_nonvacuous"]
PINS = [vf.Pin("pool_default_min_size", "src/buffer_pool.rs", r"pub fn new\(\) -> BufferPool \{.*?min_size:\s*([0-9_]+)\s*,")]


def main(ctx):
    ctx.rule = ("seeded random sequences (4..32 ops) of alloc::<T>(cap) / add / drop over 14 element types and capacities clustered "
                "around a per-sequence palette (so reuse, near-miss sizes and layout mismatches occur), min_size in {0,1,64,default,1000}; "
                "non-trivial = at least one allocation was served from the pool; plus multi-thread stress runs (observation only)")
    ctx.trusted += ["std::sync::Mutex, global allocator, Vec::from_raw_parts: modelled, not verified",
                    "buffer identity is observed by pointer; zero-sized allocations with equal dangling pointers are matched in pool order"]
    ctx.audit(GROUP)
    problems = ctx.pins(GROUP, PINS)
    failed = ctx.prove(GROUP, "Props_C23", THEOREMS)
    ok, out = ctx.make(GROUP, ["Pins.vo"])
    if not ok:
        raise vf.CheckerBroken("Pins.v does not compile: " + out[-500:])
    bindir = ctx.harness(GROUP, profile="release", bins=["c23"])
    cases = ctx.gen_exec(bindir, "c23", ctx.n(1500, 30000), inputs=ctx.replay_inputs())
    # The tie that matters for the property: the implementation's observable trace is a trace of
    # the abstract specification (spec_run), about which the C23_spec_* theorems are proved.
    ctx.correspond("BufferPool-trace-in-spec", GROUP, REQ, cases, agree="prop_ok", prop_ok="prop_ok", show="show",
                   shard=250, fn_name="Pool.PoolModel.spec_run (trace inclusion)")
    # Informational: does the code still follow the deterministic model of today's policy (best fit,
    # min_size threshold)?  A drift here does not touch the property and raises no alarm.
    dis, _, err = ctx.coq_eval_cases(GROUP, REQ, [c["term"] for c in cases], "agree", "prop_ok", 250, tag="det")
    ctx.extra["policy_model_disagreements"] = (len(dis) if not err else "evaluation error")
    if dis:
        ctx.log("note: %d case(s) deviate from the deterministic policy model (best fit / min_size); the property oracle accepts them" % len(dis))
    if problems and not ctx.violations:
        ctx.violation({"kind": "pin-broken", "problems": problems,
                       "explain": "constants the model is parameterised by could not be re-extracted from the source"}, no_input=True)
    if failed and not ctx.violations:
        ctx.proof_broken(failed, "all correspondence cases of this run")
