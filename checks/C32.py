"""C32 -- The generator feeds the model a consistent token history (DESIGN.md section 2, C32)."""
import vf

META = {
    "claimed": True,
    "text": ("Coq theorems, by induction over arbitrary operation lists (with_prompt / append_prompt / clear_prompt / "
             "process_prompt / next, incl. next() failing after the model ran) and arbitrary model outputs, about a Gallina "
             "state-machine model of rten_generate::Generator (input_ids, input_offset, prev_tokens, decoder and encoder KV-cache "
             "entries, with and without KV cache): every model call submits exactly the pending prompt and, with a KV cache, "
             "consumes it, at positions that continue contiguously from 0 (attention mask covering exactly the positions so far); "
             "the cache tensors passed in are the ones last returned (encoder entries: last non-empty one); prev_tokens() after "
             "every operation, and the prev_tokens shown to logits filters, equal the history of every token occurrence submitted "
             "to or produced by the model, in order. The model is tied to the code by driving the real Generator through its public "
             "API against a recording mock rten_generate::model::Model on exhaustive short and seeded random histories (<= 12 ops) "
             "and comparing every observation inside Coq; the implementation's own log is also checked by an independent executable "
             "specification (with reflection lemmas), which yields the concrete replay input."),
    "note": ("Trusted: Coq kernel; the correspondence sample (a test, not a proof); the mock's tagging of cache tensors by their "
             "contents. Without KV cache the 'exactly once / contiguous' clause is replaced by 'the whole pending sequence is "
             "re-submitted from position 0'. Token ids are compared as u32 (the i32 tensor is the transport). Model errors "
             "(Model::run returning Err) are outside the history alphabet of the property and are not modelled. F8 (append_prompt "
             "tokens missing from prev_tokens) is repaired by a fix: commit; the theorems are about the fixed code."),
    "technique": "Coq proof (simulation invariant between the code-level state machine and a ghost specification, induction over operation lists) + model/implementation correspondence",
}
GROUP = "generator"
REQ = "From RV Require Import Prelude.\nFrom Generator Require Import Model.\nOpen Scope N_scope."
THEOREMS = ["C32_tokens_once", "C32_positions_contiguous", "C32_positions_without_cache", "C32_cache_handoff",
            "C32_encoder_entry_kept_or_replaced", "C32_prev_tokens_complete", "C32_prev_tokens_equal_submitted",
            "C32_prev_tokens_equal_submitted_when_consumed", "C32_oracle_reflects", "C32_model_satisfies_oracle",
            "C32_unfixed_code_refuted", "C32_nonvacuous"]


def classify(case):
    return None


def main(ctx):
    ctx.rule = ("every operation sequence of length <= 3 (quick) / <= 4 (thorough) over {with_prompt [1,2], with_prompt [], "
                "append [3], append [], clear, process_prompt, next->4, next with all-removing filter} for decoder-KV, no-KV and "
                "encoder-decoder mocks, plus seeded random histories of 1..12 operations (prompts of 0..4 tokens incl. extreme "
                "u32 ids, 1-2 layers, 3- and 4-dim caches, several kv_cache_capacity values); a case is non-trivial when at "
                "least one model call happened; distinct = distinct (config, history)")
    ctx.trusted += ["modelled, not verified: rten_tensor buffer growth of the KV cache (contents are observed to be preserved "
                    "through the mock's tags), ArgMax sampler and Logits (the sampled token is an input of the `next` operation)",
                    "the Generator is reached only through its public API (from_model_config, with_prompt, append_prompt, "
                    "clear_prompt, process_prompt, Iterator::next, prev_tokens, prompt, kv_cache_len, with_logits_filter)"]
    ctx.assumptions += ["Model::run does not fail and returns one tensor per requested output (the mock does)"]
    ctx.audit(GROUP)
    failed = ctx.prove(GROUP, "Props_C32", THEOREMS)
    bindir = ctx.harness(GROUP, profile="release", bins=["c32"], hooks=False)
    cases = ctx.gen_exec(bindir, "c32", ctx.n(2000, 40000), inputs=ctx.replay_inputs())
    ctx.correspond("generator_history", GROUP, REQ, cases, classify=classify, show="show",
                   fn_name="Generator.Model.run (state machine of rten_generate::Generator, fixed code)")
    if failed and not ctx.violations:
        ctx.proof_broken(failed, "all correspondence cases of this run")
