"""C20 -- A model converted to .rten behaves like the ONNX original (constant-narrowing sentence)."""
import os
import sys
import vf

META = {
    "claimed": True,
    "text": ("Scope: the constant-narrowing sentence of C20 (integer/boolean constants narrowed to i32 saturate, f64/f16 become the nearest "
             "f32, identically in the converter path and the direct ONNX path). rten-convert needs the `onnx` and `flatbuffers` Python "
             "packages, which are not installed, so the converter cannot run as a whole; instead a TRANSLATOR (Python `ast`) re-reads "
             "converter.py on every run, turns the `match dtype_name` arms of constant_node_from_onnx_initializer and the Constant-op "
             "attribute branches into a Coq table (Pins.v), and Coq proves for ALL values of every integer dtype both paths accept that the "
             "numpy operation sequence (astype = truncation, clip = saturation) equals the Rust loader's conversion and saturates. "
             "Tie: the extracted statements are executed under numpy and the Rust loader is run on generated one-node ONNX files with the "
             "same constants (boundary + random values, raw_data and typed fields, optimisation on/off); both are compared with the model "
             "inside Coq. Float constants: all 65536 f16 patterns and sampled f64 patterns (ties, subnormals, overflow, NaN) are pushed "
             "through both real paths and compared bit for bit -- a differential, not a theorem. Operator/attribute serialisation "
             "equivalence between converter.py and the two Rust registries is NOT addressed."),
    "note": ("Trusted: Coq kernel; the ast translator (harness/convert/py_side.py) and that executing the extracted statements under numpy "
             "equals what the converter does; numpy's astype/clip semantics (modelled as truncation/saturation, checked by the run); "
             "onnx.numpy_helper.to_array modelled as np.frombuffer on raw_data. IEEE f64->f32 / f16->f32 conversions are not modelled."),
    "technique": "source-to-Coq translator (Python ast) + Coq proof over the regenerated table + two-path differential correspondence",
}
GROUP = "convert"
REQ = "From RV Require Import Prelude.\nFrom Convert Require Import ConvertBase Pins ConvertModel.\nOpen Scope Z_scope."
THEOREMS = ["C20_int_narrowing_agrees", "C20_py_narrowing_saturates", "C20_rust_narrowing_saturates",
            "C20_saturate_spec", "C20_oracle_reflects", "C20_nonvacuous"]
PYSIDE = os.path.join(vf.ROOT, "harness", "convert", "py_side.py")
INT_DTS = {"DInt8": (-128, 127), "DUInt8": (0, 255), "DInt16": (-32768, 32767), "DUInt16": (0, 65535),
           "DInt32": (-2**31, 2**31 - 1), "DBool": (0, 1), "DInt64": (-2**63, 2**63 - 1), "AValueInt": (-2**63, 2**63 - 1),
           "AValueInts": (-2**63, 2**63 - 1), "DUInt32": (0, 2**32 - 1), "DUInt64": (0, 2**64 - 1)}


def write_pins():
    sys.path.insert(0, os.path.dirname(PYSIDE))
    import importlib
    import py_side
    importlib.reload(py_side)
    text, problems = py_side.pins_text(vf.REPO)
    fn = os.path.join(vf.COQ, GROUP, "Pins.v")
    if not os.path.exists(fn) or open(fn).read() != text:
        open(fn, "w").write(text)
    return problems


def setup_hook(ctx):
    write_pins()


def gen_inputs(ctx, n):
    rng = vf.SplitMix64(ctx.seed)
    lines = []
    specials = [0, 1, -1, 2, 127, 128, 255, 256, 32767, 32768, 65535, 65536, 2**31 - 2, 2**31 - 1, 2**31, 2**31 + 1, 2**32 - 1, 2**32,
                2**32 + 1, -2**31 + 1, -2**31, -2**31 - 1, -2**32, 2**62, 2**63 - 2, 2**63 - 1, -2**63 + 1, -2**63, 2**63, 2**64 - 1,
                3000000000, -3000000000, 4294967295 + 2**31]
    for dt, (lo, hi) in INT_DTS.items():
        vals = [v for v in specials if lo <= v <= hi] + [lo, lo + 1, hi - 1, hi]
        for _ in range(n):
            k = rng.below(4)
            if k == 0:
                v = lo + rng.below(hi - lo + 1)
            elif k == 1:
                v = rng.choice(specials) + rng.below(5) - 2
            else:
                v = (rng.below(1 << (1 + rng.below(64)))) * (1 if rng.below(2) else -1)
            if lo <= v <= hi:
                vals.append(v)
        for v in dict.fromkeys(vals):
            lines.append("I %s %d" % (dt, v))
    return lines


def float_inputs(ctx):
    rng = vf.SplitMix64(ctx.seed ^ 0xF10A7)
    lines = ["F16 %04x" % b for b in range(0, 65536, 1 if ctx.tier == "thorough" else 7)]
    f64 = [0x0000000000000000, 0x8000000000000000, 0x7FF0000000000000, 0xFFF0000000000000, 0x7FF8000000000000, 0x7FF0000000000001,
           0xFFF8000000000123, 0x3FF0000000000000, 0x3FF0000010000000, 0x3FF0000030000000, 0x3FF0000010000001, 0x3FF000000FFFFFFF,
           0x47EFFFFFE0000000, 0x47EFFFFFEFFFFFFF, 0x47EFFFFFF0000000, 0x47F0000000000000, 0x36A0000000000000, 0x3690000000000000,
           0x3690000000000001, 0x380FFFFFC0000000, 0x3810000000000000, 0x36B8000000000000, 0x0000000000000001, 0x7FEFFFFFFFFFFFFF]
    for _ in range(ctx.n(3000, 60000)):
        k = rng.below(4)
        if k == 0:
            b = rng.next()
        elif k == 1:   # near f32 rounding ties: f32 mantissa + half-ulp patterns
            b = (rng.below(0x7FF) << 52) | (rng.below(1 << 23) << 29) | rng.choice([0x10000000, 0x0FFFFFFF, 0x10000001, 0x30000000, 0])
            b |= rng.below(2) << 63
        elif k == 2:   # f32 subnormal range and overflow boundary
            e = rng.choice([0x369, 0x36A, 0x36B, 0x37F, 0x380, 0x381, 0x47D, 0x47E, 0x47F])
            b = (e << 52) | rng.below(1 << 52) | (rng.below(2) << 63)
        else:
            b = rng.choice(f64) ^ rng.below(4)
        f64.append(b)
    lines += ["F64 %016x" % b for b in dict.fromkeys(f64)]
    return lines


def run_both(ctx, bindir, lines):
    data = "\n".join(lines) + "\n"
    rc, py = vf.sh(["python3-vt", PYSIDE, "run", vf.REPO], input=data, timeout=900)
    py_lines = [l for l in py.split("\n") if l.startswith(("Val", "Rejected"))]
    if rc != 0 or len(py_lines) != len(lines):
        raise vf.CheckerBroken("python side failed (rc=%d, %d/%d answers): %s" % (rc, len(py_lines), len(lines), py[-800:]))
    rc, rs = ctx.run_bin(os.path.join(bindir, "c20"), stdin=data, timeout=900)
    rs_lines = [l for l in rs.split("\n") if l.strip()]
    if rc != 0 or len(rs_lines) != len(lines):
        raise vf.CheckerBroken("rust side failed (rc=%d, %d/%d answers): %s" % (rc, len(rs_lines), len(lines), rs[-800:]))
    return py_lines, rs_lines


def classify(case):
    return None


def main(ctx):
    ctx.rule = ("per integer dtype/attribute: all boundary values of the dtype and of i32 inside its range (+-1), powers of two, and seeded "
                "random values; each pushed through the extracted converter.py code (numpy) and through Model::load of a generated ONNX file "
                "(raw_data / typed field, optimisation on/off); non-trivial = value outside the i32 range or dtype needing conversion; "
                "floats: every 7th (quick) / every (thorough) f16 pattern, f64 ties/subnormals/overflow/NaN + random")
    ctx.trusted += ["harness/convert/py_side.py (ast translator + execution of the extracted statements under numpy in python3-vt)",
                    "numpy astype/clip semantics; onnx.numpy_helper.to_array modelled as np.frombuffer on raw_data",
                    "not addressed: operator/attribute serialisation equivalence converter.py <-> rten_registry.rs <-> onnx_registry.rs"]
    ctx.audit(GROUP)
    problems = write_pins()
    ctx.pins_rec.append({"name": "py_arms", "file": "rten-convert/rten_convert/converter.py",
                         "text": open(os.path.join(vf.COQ, GROUP, "Pins.v")).read()[-900:]})
    failed = ctx.prove(GROUP, "Props_C20", THEOREMS)
    bindir = ctx.harness(GROUP, profile="release", bins=["c20"])
    # when the proofs do not build, the model files may still build: make them for the evaluation
    ok, out = ctx.make(GROUP, ["ConvertModel.vo"])
    if not ok:
        raise vf.CheckerBroken("model does not compile: " + out[-800:])
    replay = ctx.replay_inputs()
    lines = replay if replay else gen_inputs(ctx, ctx.n(60, 1500))
    ints = [l for l in lines if l.startswith("I ")]
    if ints:
        py, rs = run_both(ctx, bindir, ints)
        cases = []
        for l, a, b in zip(ints, py, rs):
            _, dt, v = l.split()
            lo, hi = -2**31, 2**31 - 1
            trivial = lo <= int(v) <= hi and dt in ("DInt32", "DInt8", "DUInt8")
            if b == "Panic":
                b = "Val RFloat32 0" if a == "Rejected" else "Rejected"   # forces disagreement; tag tells why
                tag = "anomaly-panic"
            else:
                tag = ("trivial-" if trivial else "") + dt + ("-oor" if not lo <= int(v) <= hi else "")
            cases.append({"tag": tag, "input": l,
                          "term": "{| c_dt := %s; c_val := (%s); c_py := %s; c_rust := %s |}" % (dt, v, a.replace("-", "(-") + (")" if "-" in a else ""), b.replace("-", "(-") + (")" if "-" in b else ""))})
        ctx.correspond("constant-narrowing", GROUP, REQ, cases, show="show", classify=classify,
                       fn_name="Convert.ConvertBase.py_convert / rust_convert")
    # float constants: two-path differential (no model)
    fl = [l for l in (replay or float_inputs(ctx)) if l.startswith("F")]
    if fl:
        py, rs = run_both(ctx, bindir, fl)
        def canon(x):
            # all NaNs are one value: the property speaks about values / NaN positions, not payload bits
            q = x.split()
            if len(q) == 3 and q[1] == "RFloat32" and (int(q[2]) & 0x7FFFFFFF) > 0x7F800000:
                return "Val RFloat32 NaN"
            return x
        bad = [(l, a, b) for l, a, b in zip(fl, py, rs) if canon(a) != canon(b)]
        ctx.evals += len(fl)
        for l in fl:
            ctx.distinct.add(l)
        ctx.hist["float-differential"] = len(fl)
        ctx.extra["float_differential"] = {"cases": len(fl), "mismatches": len(bad), "kind": "exercised only (no theorem)"}
        ctx.log("float differential: %d constants through both paths, %d mismatches" % (len(fl), len(bad)))
        for l, a, b in bad[:2]:
            ctx.violation({"kind": "property-failure", "check": "float-differential", "input": l, "python_path": a, "rust_path": b,
                           "explain": "the converter path and the ONNX loader path produce different f32 bits for this constant"})
    if problems and not ctx.violations:
        ctx.violation({"kind": "translator-broken", "problems": problems,
                       "explain": "converter.py could not be translated: the table the theorems are stated over is incomplete"}, no_input=True)
    if failed and not ctx.violations:
        ctx.proof_broken(failed, "all integer boundary/random constants and the float differential of this run")
