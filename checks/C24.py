"""C24 -- Control-flow subgraphs behave like the equivalent inlined graph."""
import vf

META = {
    "claimed": True,
    "text": ("PARTIAL. Proved in Coq for all graphs/plans/strategies (heap-level executor model of C02, subgraph operators as operators that read "
             "their captures): a value is moved into a subgraph's capture environment (by-value capture) only if it has NO remaining use - no "
             "later operator reads it, it is not a requested output (C24_by_value_captures_have_no_later_use); the executor invariants are "
             "re-established after every step including subgraph operators, and under them every value still needed is found in a buffer "
             "holding exactly its value in the inlined/naive evaluation (C24_step_preserves_invariants, C24_parent_values_preserved); a subgraph "
             "run whose capture environment is presented as run inputs (by-reference = borrowed, by-value = owned) returns the naive evaluation "
             "of the subgraph for every strategy (C24_subgraph_refines_inline_partial; the full statement through the CaptureEnv lookup chain "
             "is C24_subgraph_refines_inline_statement, NOT proved); today's Loop and the inlined meaning produce the same outputs except for "
             "a loop with scan outputs that never iterates (C24_loop_outputs_agree_outside_F19, C24_F19_refuted). "
             "Exercised, not proved: the real If/Loop operators and CaptureEnv on generated nested graphs (depth <= 4, captures of parent and "
             "grandparent values by value and by reference, captured values used again afterwards, in-place overwriting test operators inside "
             "branches and bodies, carried dependencies, scan outputs, zero-iteration loops, owned/borrowed inputs, pool on/off) compared with "
             "the inlined evaluation SubgraphModel.eval_top inside Coq. KNOWN FINDING F19: a zero-iteration Loop with scan outputs makes "
             "Graph::run fail with OutputMismatch (pinned by unit test test_loop_condition_initially_false)."),
    "note": ("Trusted: Coq kernel; correspondence sample; Loop/If kernels' tensor handling (concatenation of scan outputs, scalar conversion) "
             "and the CaptureEnv name lookup are modelled by the inlined evaluator and only compared by correspondence; optimisation on/off is "
             "not exercised (the optimizer is C01's subject; the hook builds graphs directly)."),
    "technique": "Coq proof (executor invariants, parent side of capture bookkeeping) + model/implementation correspondence against an inlined evaluator",
}
GROUP = "exec"
REQ = ("From RV Require Import Prelude.\nFrom Planner Require Import Graph.\n"
       "From Exec Require Import ExecModel ModelTestOps SubgraphModel.\nOpen Scope N_scope.\n"
       "Notation case := case24 (only parsing).")
THEOREMS = ["C24_by_value_captures_have_no_later_use", "C24_step_preserves_invariants", "C24_parent_values_preserved",
            "C24_subgraph_refines_inline_partial", "C24_loop_outputs_agree_outside_F19", "C24_F19_refuted",
            "C24_prop_ok_reflect", "C24_nonvacuous"]


def one_pass(ctx, name, cases, agree, prop_ok, show, shard, fn_name, classify=None):
    """Evaluate the informational model-agreement function and the property oracle in ONE Coq pass
    over all cases (case terms are large), then hand only the cases that fail the oracle to
    ctx.correspond (which alarms, classifies known findings and writes replay files).
    Returns the indices on which the implementation deviates from the deterministic model."""
    import hashlib
    dis, pf, err = ctx.coq_eval_cases(GROUP, REQ, [c["term"] for c in cases], agree, prop_ok, shard, tag="all")
    if err:
        raise vf.CheckerBroken("model evaluation failed for %s: %s" % (name, err))
    bad = set(pf)
    for i, c in enumerate(cases):
        if i in bad:
            continue  # accounted for by ctx.correspond below
        ctx.evals += 1
        t = c.get("tag", "")
        ctx.hist[t] = ctx.hist.get(t, 0) + 1
        if not t.startswith("trivial"):
            ctx.distinct.add(hashlib.sha1(c["input"].encode()).hexdigest())
    for c in cases[:3]:
        if len(ctx.samples) < 12:
            ctx.samples.append({"check": name, "input": c["input"][:400], "tag": c.get("tag", "")})
    ctx.log("correspondence %s: %d cases, %d fail the property oracle, %d deviate from the deterministic model"
            % (name, len(cases), len(pf), len(dis)))
    if pf:
        ctx.correspond(name, GROUP, REQ, [cases[i] for i in pf], classify=classify, agree=prop_ok, prop_ok=prop_ok,
                       show=show, shard=shard, fn_name=fn_name)
    else:
        ctx.corr.append({"name": name, "cases": len(cases), "disagree": 0, "property_failures": 0})
    return dis


def main(ctx):
    ctx.rule = ("seeded random graphs of test operators with real If / Loop operators nested to depth <= 4 (2 in most cases): 1..3 captures per "
                "subgraph from parent or grandparent, in-place capable overwriting operators inside bodies, loops with trip counts 0..3, optional "
                "initial condition, 0..2 carried values, 0..2 scan outputs; 4 runs per case (borrowed / owned / mixed, pool on/off); "
                "non-trivial = the graph contains an If or a Loop")
    ctx.trusted += ["If/Loop kernels and CaptureEnv lookup: compared with the inlined evaluator by correspondence, not proved"]
    ctx.assumptions += ["node ids of generated graphs are in topological order; names are unique across graph and subgraphs (ONNX SSA)"]
    ctx.audit(GROUP, "planner")
    failed = ctx.prove(GROUP, "Props_C24", THEOREMS) if THEOREMS else []
    ok, out = ctx.make(GROUP, ["SubgraphModel.vo"])
    if not ok:
        raise vf.CheckerBroken("SubgraphModel.v does not compile: " + out[-500:])
    bindir = ctx.harness(GROUP, profile="release", bins=["c24"])
    cases = ctx.gen_exec(bindir, "c24", ctx.n(160, 900), inputs=ctx.replay_inputs())
    terms = [c["term"] for c in cases]
    # pass 1 (informational): which cases are in the known class F19 (decided inside Coq from the
    # model), which deviate from the model of today's If/Loop
    notf19, dis, err = ctx.coq_eval_cases(GROUP, REQ, terms, "(fun c => negb (f19_class c))", "agree24", 16, tag="f19")
    if err:
        raise vf.CheckerBroken("f19 classification failed: " + str(err)[:500])
    f19 = set(notf19)
    for i, c in enumerate(cases):
        c["f19"] = i in f19
    ctx.extra["f19_cases"] = len(f19)
    ctx.extra["impl_model_disagreements"] = len(dis)
    if dis:
        ctx.log("note: %d case(s) deviate from the model of today's Loop/If (incl. F19 behaviour); first: %s" % (len(dis), cases[dis[0]]["input"][:300]))
    # pass 2: the property oracle
    one_pass(ctx, "If/Loop-vs-inlined", cases, "prop_ok24", "prop_ok24", "show24", 16,
             "Exec.SubgraphModel.eval_top (inlined evaluation)", classify=lambda c: "F19" if c.get("f19") else None)
    if failed and not ctx.violations:
        ctx.proof_broken(failed, "all correspondence cases of this run")
