"""C24 -- Control-flow subgraphs behave like the equivalent inlined graph."""
import vf

META = {
    "claimed": False,
    "text": "work in progress",
    "note": "",
    "technique": "Coq proof + model/implementation correspondence",
}
GROUP = "exec"
REQ = ("From RV Require Import Prelude.\nFrom Planner Require Import Graph.\n"
       "From Exec Require Import ExecModel ModelTestOps SubgraphModel.\nOpen Scope N_scope.\n"
       "Notation case := case24 (only parsing).")
THEOREMS = []


def main(ctx):
    ctx.audit(GROUP, "planner")
    failed = ctx.prove(GROUP, "Props_C24", THEOREMS) if THEOREMS else []
    ok, out = ctx.make(GROUP, ["SubgraphModel.vo"])
    if not ok:
        raise vf.CheckerBroken("SubgraphModel.v does not compile: " + out[-500:])
    bindir = ctx.harness(GROUP, profile="release", bins=["c24"])
    cases = ctx.gen_exec(bindir, "c24", ctx.n(300, 6000), inputs=ctx.replay_inputs())
    terms = [c["term"] for c in cases]
    # which failing cases belong to the known class F19 (decided inside Coq, from the model)
    notf19, _, err = ctx.coq_eval_cases(GROUP, REQ, terms, "(fun c => negb (f19_class c))", "(fun _ => true)", 40, tag="f19")
    if err:
        raise vf.CheckerBroken("f19 classification failed: " + str(err)[:500])
    f19 = set(notf19)
    for i, c in enumerate(cases):
        c["f19"] = i in f19
    ctx.extra["f19_cases"] = len(f19)
    ctx.correspond("If/Loop-vs-inlined", GROUP, REQ, cases, classify=lambda c: "F19" if c.get("f19") else None,
                   agree="prop_ok24", prop_ok="prop_ok24", show="show24", shard=40,
                   fn_name="Exec.SubgraphModel.eval_top (inlined evaluation)")
    dis, _, err = ctx.coq_eval_cases(GROUP, REQ, terms, "agree24", "prop_ok24", 40, tag="det")
    ctx.extra["impl_model_disagreements"] = (len(dis) if not err else "evaluation error: " + str(err)[:300])
    if dis:
        ctx.log("note: %d case(s) deviate from the model of today's Loop/If (incl. F19 behaviour); first: %s" % (len(dis), cases[dis[0]]["input"][:300]))
    if failed and not ctx.violations:
        ctx.proof_broken(failed, "all correspondence cases of this run")
