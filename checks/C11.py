"""C11 -- Symbolic expression simplification and bounds are sound (DESIGN.md section 2, C11)."""
import os
import vf

META = {
    "claimed": True,
    "text": ("Coq theorems over a Gallina model of rten-shape-inference/src/sym_expr.rs (eval with explicit i32 arithmetic in "
             "both build modes, PartialEq, cmp_values_first + stable sort, canonicalize, simplify_canonical with its constant "
             "folds, remove_common_factors incl. gcd, range, is_positive), for ALL expressions and assignments, no depth or "
             "value bound: (1) simplify_sound: if the original evaluates without overflow or division by zero, Broadcast "
             "operands are equal-or-1 and symbols declared positive are non-negative, the simplified expression evaluates "
             "(wrapping i32 arithmetic, i.e. SymExpr::eval of a release build) to the same value -- proved rule by rule "
             "(one lemma per rewrite); (2) simplify never panics; (3) range() contains the value; (4) is_positive() implies "
             "value >= 0. Theorems (1)-(4) are about the code after four fix commits (F5 range, F17 checked folds, F18 "
             "nested-division guard, F20 sign of cancelled common factors -- F20 was found by the proof); `_refuted` witness "
             "theorems show the unfixed code violates each. Known finding F17b: under overflow-CHECKED evaluation (debug "
             "builds) a re-associated sum/product can trap on an intermediate although the original does not; proved "
             "unavoidable for the current canonicalize (C11_F17b_checked_eval_refuted), reported as KNOWN-FINDING. The model "
             "is tied to the code on every run by executing SymExpr::{simplify,range,is_positive,eval} (release and debug "
             "builds) on enumerated and seeded random expression trees and comparing, inside Coq, the simplified tree "
             "structurally, the range, the flag and every evaluation outcome with the model; the implementation's own outputs "
             "are also checked against the property oracle, which yields the concrete replay input."),
    "note": ("Trusted: Coq kernel; the correspondence sample (a test, not a proof); Vec::sort_by modelled as stable insertion "
             "sort (the comparator is a consistent weak order); symbol names mapped order-preservingly to numbers; Arc sharing "
             "ignored. Broadcast precondition read as: both operands >= 0 and equal, or one is 1 and the other >= 1 "
             "(0-vs-1 excluded: eval gives 1, the rewrite gives 0). simplify_sound concludes about wrapping evaluation only "
             "(see F17b)."),
    "technique": "Coq proof (structural induction, permutation invariance, one lemma per rewrite rule) + model/implementation correspondence",
}
GROUP = "symexpr"
REQ = ("From RV Require Import Prelude.\nFrom SymExpr Require Import SymExprModel.\n"
       "Open Scope Z_scope.")
THEOREMS = ["C11_simplify_sound", "C11_simplify_total", "C11_range_sound", "C11_is_positive_sound",
            "C11_eval_release_agrees", "C11_canonicalize_sound", "C11_simplify_canonical_sound", "C11_evalR_between",
            "C11_canonical_sub_free", "C11_oracle_accepts_model", "C11_oracle_reject_is_counterexample",
            "C11_F5_range_refuted", "C11_F17_fold_refuted", "C11_F17_panic_refuted", "C11_F18_divceil_nest_refuted",
            "C11_F20_common_factor_refuted", "C11_F17b_checked_eval_refuted", "C11_nonvacuous"]


def main(ctx):
    ctx.rule = ("exhaustive depth<=1 trees over 13 constants {0,+-1,+-2,3,7,256,768,65536,46341,i32::MIN,i32::MAX} and two symbols; "
                "depth-2 trees with one leaf operand over {0,1,-1,2,i32::MIN} and two symbols (exhaustive in the thorough tier, "
                "1/24 sample in quick); Neg placements; a structural-comparison family (two different expressions over the same operands -- "
                "all pairs of distinct constructors, swapped/changed operands, x vs -x -- as siblings under Sub/Add-Neg/Max/Min/Broadcast/"
                "DivCeil/Div, both orders); seeded random trees of depth<=5 with shared subterms and rewrite-shaped "
                "subtrees (nested Div/DivCeil, common factors, cancelling terms, Max/Min/Broadcast chains), <=3 symbols "
                "(positive and unconstrained, rarely the same name with both flags); per tree 9-14 assignments (all 0, all 1, "
                "all equal, pairwise different inexactly dividing values, -1 for unconstrained symbols, small values, extremes, a missing symbol); release build on "
                "everything, debug build on a third of the enumerated streams; a case is non-trivial when the tree is not a leaf")
    ctx.trusted += ["modelled, not verified: Vec::sort_by (stable insertion sort in the model), Arc, String comparison of "
                    "symbol names (single letters a..e mapped to 0..4)",
                    "SymExpr::{simplify,range,is_positive,eval} are reached through the public API of rten-shape-inference"]
    ctx.assumptions += ["Broadcast operands are both >= 0 and equal, or one is 1 and the other >= 1 (bcast_ok)",
                        "symbols declared positive are assigned non-negative values (pos_ok)",
                        "simplify_sound concludes for wrapping (release-build) evaluation of the simplified expression"]
    ctx.audit(GROUP)
    failed = ctx.prove(GROUP, "Props_C11", THEOREMS)
    agree = "agree_old" if os.environ.get("C11_MODEL") == "old" else "agree"
    fn = "SymExpr.SymExprModel.{simplify_gen cfg_fixed, range, is_positive, evalm}"

    # release build: wrapping arithmetic
    bindir = ctx.harness(GROUP, profile="release", bins=["c11"], hooks=False)
    cases = ctx.gen_exec(bindir, "c11", ctx.n(1100, 12000), inputs=ctx.replay_inputs())
    ctx.correspond("simplify/range/is_positive/eval (release build)", GROUP, REQ, cases,
                   show="show", agree=agree, fn_name=fn)

    # debug build: overflow panics (simplify must not panic; eval panics = EOvf of the model)
    bindir = ctx.harness(GROUP, profile="debug", bins=["c11"], hooks=False)
    cases = ctx.gen_exec(bindir, "c11", ctx.n(450, 3000), extra_gen=["lite"], inputs=ctx.replay_inputs())
    ctx.correspond("simplify/range/is_positive/eval (debug build)", GROUP, REQ, cases,
                   show="show", agree=agree, fn_name=fn)
    # known finding F17b: with overflow-checked evaluation the simplified tree may trap on an
    # intermediate.  strict_only = cases that pass prop_ok but fail prop_strict.
    # (only trees that simplify changed can differ between the two oracles)
    cases = [c for c in cases if c["tag"].endswith("-rewritten")]
    ok_fail, strict_fail, err = ctx.coq_eval_cases(GROUP, REQ, [c["term"] for c in cases], agree="prop_ok",
                                                   prop_ok="prop_strict", tag="strict")
    if err:
        raise vf.CheckerBroken("model evaluation failed for the strict oracle: %s" % err)
    strict_only = [i for i in strict_fail if i not in set(ok_fail)]
    ctx.extra["checked_eval_intermediate_overflow_cases"] = len(strict_only)
    if strict_only:
        ctx.log("F17b: %d case(s) where the simplified expression overflows only under overflow-checked evaluation, e.g. %s"
                % (len(strict_only), cases[strict_only[0]]["input"]))
        if not ctx.known("F17b"):
            c = cases[strict_only[0]]
            ctx.violation({"kind": "property-failure", "check": "checked evaluation of the simplified expression",
                           "input": c["input"], "coq_case": c["term"],
                           "explain": "the simplified expression overflows under overflow-checked evaluation although the original does not (prop_strict)"})
    if failed and not ctx.violations:
        ctx.proof_broken(failed, "all correspondence cases of this run")
