"""C11 -- Symbolic expression simplification and bounds are sound (DESIGN.md section 2, C11)."""
import os
import vf

META = {
    "claimed": True,
    "text": "",
    "note": "",
    "technique": "Coq proof (structural induction, one lemma per rewrite rule) + model/implementation correspondence",
}
GROUP = "symexpr"
REQ = ("From RV Require Import Prelude.\nFrom SymExpr Require Import SymExprModel.\n"
       "Open Scope Z_scope.")
THEOREMS = []


def classify(case):
    return None


def main(ctx):
    ctx.rule = ""
    ctx.audit(GROUP)
    failed = ctx.prove(GROUP, "Props_C11", THEOREMS) if THEOREMS else []
    agree = "agree_old" if os.environ.get("C11_MODEL") == "old" else "agree"
    for profile, nq, nt in (("release", 2500, 40000), ("debug", 1200, 15000)):
        bindir = ctx.harness(GROUP, profile=profile, bins=["c11"], hooks=False)
        cases = ctx.gen_exec(bindir, "c11", ctx.n(nq, nt), inputs=ctx.replay_inputs())
        ctx.correspond("simplify/range/is_positive/eval (%s build)" % profile, GROUP, REQ, cases,
                       classify=classify, show="show", agree=agree,
                       fn_name="SymExpr.SymExprModel.{simplify_gen cfg_fixed, range, is_positive, evalm}")
    if failed and not ctx.violations:
        ctx.proof_broken(failed, "all correspondence cases of this run")
