"""C25 -- Model runs are deterministic and leave model and inputs unchanged."""
import vf

META = {
    "claimed": True,
    "text": ("Coq theorems over the heap-level model of Graph::run_plan (coq/exec, shared with C02): in EVERY state the executor "
             "passes through, the buffers behind constants and behind inputs passed as borrowed views hold their original contents "
             "(C25_constants_never_written, C25_borrowed_inputs_never_written) because only buffers owned by temp_values are ever "
             "handed to run_in_place or moved into a capture environment (C25_only_owned_buffers_run_in_place); outputs are a "
             "function of inputs and constants only, for every strategy and owned/borrowed split (C25_run_is_function); a later run "
             "that re-reads the constants from the heap an earlier run left behind returns the naive evaluation over the ORIGINAL "
             "constants, so running twice gives identical results (C25_runs_independent). For all graphs, plans, inputs, strategies; "
             "operators abstract, assumed deterministic and to honour the run_in_place contract. "
             "Tie: random DAGs of table-driven test operators on the real Graph::run where constants and borrowed inputs feed "
             "in-place capable buffer-overwriting operators and are requested as outputs; each strategy run twice on the same graph "
             "instance with unrelated requests (other inputs / outputs) in between; constants and borrowed inputs read back after "
             "every run; results compared with each other and with the model's naive evaluation inside Coq. Second family (run-time "
             "differential testing): sequences of 2..4 DIFFERENT requests on one graph instance - input sets that shrink and grow, "
             "intermediates supplied by the caller, output subsets, owned/borrowed mixes - where every outcome (values, error or panic) must "
             "equal the outcome of the same request on a FRESH instance: the plan cache is the state that survives a run."),
    "note": ("Trusted: Coq kernel; correspondence sample; Rust's ownership discipline is what the heap model stands for (a view cannot be "
             "written in safe Rust) - the unsafe blocks of rten-tensor are C06's subject; thread-level float reduction order and real "
             "operator kernels are not modelled (test operators are integer hashes); the plan cache's own invariants are C22's subject; its effect on run outcomes is exercised here by the sequence family."),
    "technique": "Coq proof (buffer-ownership invariant by induction over plan steps; corollary of the C02 simulation) + model/implementation correspondence",
}
GROUP = "exec"
REQ = ("From RV Require Import Prelude.\nFrom Planner Require Import Graph.\n"
       "From Exec Require Import ExecModel ModelTestOps.\nOpen Scope N_scope.")
REQ_S = ("From RV Require Import Prelude.\nFrom Planner Require Import Graph.\n"
         "From Exec Require Import ExecModel ModelTestOps SeqModel.\nOpen Scope N_scope.\n"
         "Notation case := scase (only parsing).")
THEOREMS = ["C25_constants_never_written", "C25_borrowed_inputs_never_written", "C25_only_owned_buffers_run_in_place",
            "C25_run_is_function", "C25_runs_independent", "C25_prop_ok_reflect", "C25_nonvacuous"]


def one_pass(ctx, name, cases, agree, prop_ok, show, shard, fn_name, classify=None, req=None):
    """Evaluate the informational model-agreement function and the property oracle in ONE Coq pass
    over all cases (case terms are large), then hand only the cases that fail the oracle to
    ctx.correspond (which alarms, classifies known findings and writes replay files).
    Returns the indices on which the implementation deviates from the deterministic model."""
    import hashlib
    req = req or REQ
    dis, pf, err = ctx.coq_eval_cases(GROUP, req, [c["term"] for c in cases], agree, prop_ok, shard, tag="all")
    if err:
        raise vf.CheckerBroken("model evaluation failed for %s: %s" % (name, err))
    bad = set(pf)
    for i, c in enumerate(cases):
        if i in bad:
            continue  # accounted for by ctx.correspond below
        ctx.evals += 1
        t = c.get("tag", "")
        ctx.hist[t] = ctx.hist.get(t, 0) + 1
        if not t.startswith("trivial"):
            ctx.distinct.add(hashlib.sha1(c["input"].encode()).hexdigest())
    for c in cases[:3]:
        if len(ctx.samples) < 12:
            ctx.samples.append({"check": name, "input": c["input"][:400], "tag": c.get("tag", "")})
    ctx.log("correspondence %s: %d cases, %d fail the property oracle, %d deviate from the deterministic model"
            % (name, len(cases), len(pf), len(dis)))
    if pf:
        ctx.correspond(name, GROUP, req, [cases[i] for i in pf], classify=classify, agree=prop_ok, prop_ok=prop_ok,
                       show=show, shard=shard, fn_name=fn_name)
    else:
        ctx.corr.append({"name": name, "cases": len(cases), "disagree": 0, "property_failures": 0})
    return dis


def main(ctx):
    ctx.rule = ("seeded random DAGs (1..10 test operators, all in-place capable, mostly buffer-overwriting) over 1..4 inputs and 0..2 "
                "constants, tensors of 1..40 i32; run inputs / constants requested as outputs in half of the cases; 7 runs per case on one "
                "graph instance (borrowed x2, mixed x2, pool off, owned, 2 threads) with an unrelated request before each; "
                "non-trivial = at least one operator in the plan. Sequence family: seeded random DAGs over 2..4 inputs, 2..4 requests per case "
                "(all inputs / all inputs + a caller-supplied intermediate / a subset of the previous outputs with exactly the inputs they need), "
                "non-trivial = some request succeeds on a fresh instance")
    ctx.trusted += ["Rust ownership/borrowing (views are immutable) is what the heap model abstracts; unsafe code is out of scope (C06)",
                    "test operators (integer hashes) stand for real kernels; real kernels' determinism across threads is not covered"]
    ctx.assumptions += ["operators are deterministic and honour the Operator::run_in_place contract (C13)"]
    ctx.audit(GROUP, "planner")
    failed = ctx.prove(GROUP, "Props_C25", THEOREMS)
    ok, out = ctx.make(GROUP, ["SeqModel.vo"])
    if not ok:
        raise vf.CheckerBroken("SeqModel.v does not compile: " + out[-500:])
    bindir = ctx.harness(GROUP, profile="release", bins=["c25", "c25s"])
    replay = ctx.replay_inputs()
    flat_replay = [l for l in replay if not l.startswith("S ")] if replay else None
    seq_replay = [l for l in replay if l.startswith("S ")] if replay else None
    # family 1: repeated runs of one request under different strategies, unrelated requests in between
    if replay is None or flat_replay:
        cases = ctx.gen_exec(bindir, "c25", ctx.n(200, 1500), inputs=flat_replay)
        oracle = "(fun c => prop_ok25 c && prop_ok c)"
        dis = one_pass(ctx, "Graph::run-repeated", cases, "agree", oracle, "show", 13 if ctx.quick() else 40,
                       "Exec.ModelTestOps.prop_ok25 (snapshots, run-twice equality, naive_eval)")
        ctx.extra["executor_model_disagreements"] = len(dis)
    # family 2: sequences of DIFFERENT requests on one graph instance vs the same requests on fresh instances
    if replay is None or seq_replay:
        scases = ctx.gen_exec(bindir, "c25s", ctx.n(600, 6000), inputs=seq_replay)
        one_pass(ctx, "Graph::run-sequence-vs-fresh", scases, "prop_okS", "prop_okS", "showS", 100,
                 "the same request on a fresh graph instance (a run cannot affect later runs)", req=REQ_S)
    if failed and not ctx.violations:
        ctx.proof_broken(failed, "all correspondence cases of this run")
