"""C19 -- Vectorized math functions meet their documented accuracy (DESIGN.md section 2, C19)."""
import math
import os
import re
from fractions import Fraction
import vf

META = {
    "claimed": True,
    "text": ("PROVED (Coq + Coq-Interval, real arithmetic) over coefficients and range-reduction constants RE-EXTRACTED FROM THE RUST "
             "SOURCE ON EVERY RUN (each f32 literal translated to the exact rational it denotes): exp: |p(r) - e^r| <= 7.6e-9 and "
             "<= 6.3e-9 * e^r on the reduced range, Cody-Waite constants |hi + lo + ln 2| <= 1e-13, |LOG2_E * ln 2 - 1| <= 1.4e-8, "
             "range reduction lands in the reduced range for |x| <= 104, and END-TO-END method error of the exp algorithm "
             "|2^k p(r) - e^x| <= 6.4e-9 * e^x (about 0.1 ULP) for every |x| <= 104; tanh: odd polynomial within 7.6e-8 * tanh x on "
             "[0.0004, 0.55], identity branch within 2.2e-11 on [0, 0.0004], saturation 1 - tanh x <= 2.95e-8 (< 2^-25) for x >= 9.02; "
             "sin/cos: rational approximation within 2.2e-8 on the reduced range, 2*pi split within 1.1e-11, range reduction bound; "
             "erf: only the coefficient-sum identity (Coq has no erf). softmax over the reals with ANY positive exp function: outputs "
             "> 0, sum to exactly 1, and are independent of the subtracted maximum for the real exp. NOT proved: the f32 rounding "
             "error of the evaluation and 'within k ULP of std/libm' (libm has no formal model) -- these are MEASURED on every run: "
             "per function and per ISA (generic, AVX2, AVX-512) max ULP distance to the f64 std reference rounded to f32 over >= 2^20 "
             "stratified inputs (quick) / all 2^32 bit patterns for exp, sigmoid, tanh (thorough), against the documented bounds "
             "(exp 1, sigmoid 4, tanh 3 ULP; erf 6.631017e-7, sin 3e-7, cos 5e-7 absolute), special values, softmax >= 0 and sum "
             "within tolerance."),
    "note": ("partial: the theorems bound the METHOD error in real arithmetic; rounding error and agreement with std are measured "
             "(a test, exhaustive for exp/sigmoid/tanh in the thorough tier). Real-number axioms of the Coq standard library are used "
             "(listed in the evidence). The f64 std functions rounded to f32 are the reference oracle (same as the crate's own tests)."),
    "technique": "Coq-Interval proofs over constants pinned from the Rust source + exhaustive/stratified ULP measurement on every ISA",
}
GROUP = "vecmath"
REQ = "From RV Require Import Prelude.\nFrom VecMath Require Import VecMathModel.\nOpen Scope N_scope."
THEOREMS = ["C19_exp_poly_abs", "C19_exp_poly_rel", "C19_ln2_split", "C19_inv_ln2", "C19_exp_range_reduction",
            "C19_exp_method_error", "C19_tanh_poly", "C19_tanh_tiny", "C19_tanh_saturation",
            "C19_sin_rational", "C19_two_pi_split", "C19_sin_range_reduction", "C19_erf_coeff_sum",
            "C19_softmax_positive", "C19_softmax_sums_to_one", "C19_softmax_shift_invariant", "C19_nonvacuous"]

# ------------------------------------------------------------------ pins: f32 literal -> exact rational
STD_CONSTS = {  # decimal expansions of the std::f32::consts items the sources name
    "std::f32::consts::LOG2_E": "1.44269504088896340735992468100189214",
    "std::f32::consts::LN_2": "0.693147180559945309417232121458176568",
    "std::f32::consts::PI": "3.14159265358979323846264338327950288",
    "SQRT_2": "1.41421356237309504880168872420969808",
}


def f32_of_fraction(fr):
    """Nearest f32 (round to nearest, ties to even; no overflow expected) of an exact rational, as a Fraction."""
    if fr == 0:
        return Fraction(0)
    s = -1 if fr < 0 else 1
    a = abs(fr)
    e = a.numerator.bit_length() - a.denominator.bit_length()
    while a >= Fraction(2) ** (e + 1):
        e += 1
    while a < Fraction(2) ** e:
        e -= 1
    e = max(e, -126)
    q = a / Fraction(2) ** (e - 23)
    m = q.numerator // q.denominator
    r = q - m
    if r > Fraction(1, 2) or (r == Fraction(1, 2) and m % 2 == 1):
        m += 1
    return s * m * Fraction(2) ** (e - 23)


def lit_conv(txt):
    """Rust f32 literal (or a named std constant) -> Coq pair (numerator, denominator) of the f32 it denotes."""
    t = txt.strip()
    t = STD_CONSTS.get(t, t)
    t = t.replace("_", "")
    t = re.sub(r"f32$", "", t)
    if not re.fullmatch(r"-?[0-9]+\.?[0-9]*([eE][-+]?[0-9]+)?", t):
        raise ValueError("not a float literal: %r" % txt)
    v = f32_of_fraction(Fraction(t))
    return "%d, %d" % (v.numerator, v.denominator)


def P(name, file, regex):
    return vf.Pin(name, "rten-vecmath/src/" + file, regex, coq_type="(Z * Z)%type", conv=lit_conv, scope="Z")


F = r"(-?[0-9][0-9_]*\.?[0-9_]*(?:e-?[0-9]+)?)"
PINS = [
    P("pin_inv_log2", "exp.rs", r"const INV_LOG2: f32 = (std::f32::consts::LOG2_E);"),
    P("pin_rounding_magic", "exp.rs", r"const ROUNDING_MAGIC: f32 = " + F + r";"),
    P("pin_log2_hi", "exp.rs", r"const LOG2_HI: f32 = " + F + r";"),
    P("pin_log2_lo", "exp.rs", r"const LOG2_LO: f32 = " + F + r";"),
] + [P("pin_exp_p%d" % i, "exp.rs", r"const EXP_POLY_%d: f32 = " % i + F + r";") for i in range(7)] + [
    P("pin_exp_overflow", "exp.rs", r"let overflow_mask = ops\.ge\(x, ops\.splat\(" + F + r"\)\);"),
    P("pin_exp_underflow", "exp.rs", r"let underflow_mask = ops\.le\(x, ops\.splat\(" + F + r"\)\);"),
] + [P("pin_tanh_p%d" % i, "tanh.rs", r"const P%d: f32 = " % i + F + r";") for i in (1, 3, 5, 7, 9)] + [
    P("pin_tanh_cutoff", "tanh.rs", r"let x_cutoff = ops\.ge\(abs_x, ops\.splat\(" + F + r"\)\);"),
    P("pin_tanh_tiny", "tanh.rs", r"let x_tiny = ops\.le\(abs_x, ops\.splat\(" + F + r"\)\);"),
    P("pin_tanh_small", "tanh.rs", r"let x_small = ops\.le\(abs_x, ops\.splat\(" + F + r"\)\);"),
    P("pin_sin_pi", "sin_cos.rs", r"const PI: f32 = " + F + r";"),
    P("pin_sin_inv_2pi", "sin_cos.rs", r"const INV_2_PI: f32 = " + F + r";"),
    P("pin_sin_half_pi", "sin_cos.rs", r"const HALF_PI: f32 = " + F + r";"),
    P("pin_sin_large", "sin_cos.rs", r"const LARGE_THRESHOLD: f32 = " + F + r";"),
    P("pin_sin_2pi_hi", "sin_cos.rs", r"let two_pi_hi = ops\.splat\(" + F + r"\);"),
    P("pin_sin_2pi_lo", "sin_cos.rs", r"let two_pi_lo = ops\.splat\(" + F + r"\);"),
    P("pin_sin_a3", "sin_cos.rs", r"let a3 = ops\.splat\(" + F + r"\);"),
    P("pin_sin_a5", "sin_cos.rs", r"let a5 = ops\.splat\(" + F + r"\);"),
    P("pin_sin_b2", "sin_cos.rs", r"let b2 = ops\.splat\(" + F + r"\);"),
    P("pin_sin_b4", "sin_cos.rs", r"let b4 = ops\.splat\(" + F + r"\);"),
    P("pin_erf_p", "erf.rs", r"let p = ops\.splat\(" + F + r"\);"),
] + [P("pin_erf_a%d" % i, "erf.rs", r"let a%d = ops\.splat\(" % i + F + r"\);") for i in range(5)]
