"""C19 -- Vectorized math functions meet their documented accuracy (DESIGN.md section 2, C19)."""
import math
import os
import re
from fractions import Fraction
import vf

META = {
    "claimed": True,
    "text": ("PROVED (Coq + Coq-Interval, real arithmetic) over coefficients and range-reduction constants RE-EXTRACTED FROM THE RUST "
             "SOURCE ON EVERY RUN (each f32 literal translated to the exact rational it denotes): exp: |p(r) - e^r| <= 7.6e-9 and "
             "<= 6.3e-9 * e^r on the reduced range, Cody-Waite constants |hi + lo + ln 2| <= 1e-13, |LOG2_E * ln 2 - 1| <= 1.4e-8, "
             "range reduction lands in the reduced range for |x| <= 104, and END-TO-END method error of the exp algorithm "
             "|2^k p(r) - e^x| <= 6.4e-9 * e^x (about 0.1 ULP) for every |x| <= 104; tanh: odd polynomial within 7.6e-8 * tanh x on "
             "[0.0004, 0.55], identity branch within 2.2e-11 on [0, 0.0004], saturation 1 - tanh x <= 2.95e-8 (< 2^-25) for x >= 9.02; "
             "sin/cos: rational approximation within 2.2e-8 on the reduced range, 2*pi split within 1.1e-11, range reduction bound; "
             "erf: only the coefficient-sum identity (Coq has no erf). softmax over the reals with ANY positive exp function: outputs "
             "> 0, sum to exactly 1, and are independent of the subtracted maximum for the real exp. NOT proved: the f32 rounding "
             "error of the evaluation and 'within k ULP of std/libm' (libm has no formal model) -- these are MEASURED on every run: "
             "per function and per ISA (generic, AVX2, AVX-512) max ULP distance to the f64 std reference rounded to f32 over >= 2^20 "
             "stratified inputs (quick) / all 2^32 bit patterns for exp, sigmoid, tanh (thorough), against the documented bounds "
             "(exp 1, sigmoid 4, tanh 3 ULP; erf 6.631017e-7, sin 3e-7, cos 5e-7 absolute), special values, softmax >= 0 and sum "
             "within tolerance."),
    "note": ("partial: the theorems bound the METHOD error in real arithmetic; rounding error and agreement with std are measured "
             "(a test, exhaustive for exp/sigmoid/tanh in the thorough tier). Real-number axioms of the Coq standard library are used "
             "(listed in the evidence) plus the primitive-integer axioms Coq-Interval computes with. Primary reference = the function in f64 "
             "rounded once (sigmoid: the documented f32 formula with a correctly rounded exp); the platform's f32 routines named by the docs "
             "are a secondary reference. Known findings on the unchanged code: F54 Sin/Cos exceed the documented absolute error for large "
             "|x| (generic ISA up to 6.6e-7 from |x|~5000; FMA ISAs 3.6e-7 on a handful of inputs |x|>45000); F55 tanh is 4 ULP from glibc "
             "tanhf near 0.473 (2 ULP from the correctly rounded value)."),
    "technique": "Coq-Interval proofs over constants pinned from the Rust source + exhaustive/stratified ULP measurement on every ISA",
}
GROUP = "vecmath"
REQ = "From RV Require Import Prelude.\nFrom VecMath Require Import VecMathModel.\nOpen Scope N_scope."
# C19_method_errors is the conjunction of the 13 Interval-based theorems of Props_C19.v (C19_exp_poly_abs, C19_exp_poly_rel,
# C19_ln2_split, C19_inv_ln2, C19_exp_range_reduction, C19_exp_method_error, C19_tanh_poly, C19_tanh_tiny, C19_tanh_saturation,
# C19_sin_rational, C19_two_pi_split, C19_sin_range_reduction, C19_erf_coeff_sum) and of C19_nonvacuous; it is listed as one
# obligation because `Print Assumptions` costs several seconds per Interval-dependent theorem.
THEOREMS = ["C19_method_errors", "C19_softmax_positive", "C19_softmax_sums_to_one", "C19_softmax_shift_invariant"]

# ------------------------------------------------------------------ pins: f32 literal -> exact rational
STD_CONSTS = {  # decimal expansions of the std::f32::consts items the sources name
    "std::f32::consts::LOG2_E": "1.44269504088896340735992468100189214",
    "std::f32::consts::LN_2": "0.693147180559945309417232121458176568",
    "std::f32::consts::PI": "3.14159265358979323846264338327950288",
    "SQRT_2": "1.41421356237309504880168872420969808",
}


def f32_of_fraction(fr):
    """Nearest f32 (round to nearest, ties to even; no overflow expected) of an exact rational, as a Fraction."""
    if fr == 0:
        return Fraction(0)
    s = -1 if fr < 0 else 1
    a = abs(fr)
    e = a.numerator.bit_length() - a.denominator.bit_length()
    while a >= Fraction(2) ** (e + 1):
        e += 1
    while a < Fraction(2) ** e:
        e -= 1
    e = max(e, -126)
    q = a / Fraction(2) ** (e - 23)
    m = q.numerator // q.denominator
    r = q - m
    if r > Fraction(1, 2) or (r == Fraction(1, 2) and m % 2 == 1):
        m += 1
    return s * m * Fraction(2) ** (e - 23)


def lit_conv(txt):
    """Rust f32 literal (or a named std constant) -> Coq pair (numerator, denominator) of the f32 it denotes."""
    t = txt.strip()
    t = STD_CONSTS.get(t, t)
    t = t.replace("_", "")
    t = re.sub(r"f32$", "", t)
    if not re.fullmatch(r"-?[0-9]+\.?[0-9]*([eE][-+]?[0-9]+)?", t):
        raise ValueError("not a float literal: %r" % txt)
    v = f32_of_fraction(Fraction(t))
    return "%d, %d" % (v.numerator, v.denominator)


def P(name, file, regex):
    return vf.Pin(name, "rten-vecmath/src/" + file, regex, coq_type="(Z * Z)%type", conv=lit_conv, scope="Z")


F = r"(-?[0-9][0-9_]*\.?[0-9_]*(?:e-?[0-9]+)?)"
PINS = [
    P("pin_inv_log2", "exp.rs", r"const INV_LOG2: f32 = (std::f32::consts::LOG2_E);"),
    P("pin_rounding_magic", "exp.rs", r"const ROUNDING_MAGIC: f32 = " + F + r";"),
    P("pin_log2_hi", "exp.rs", r"const LOG2_HI: f32 = " + F + r";"),
    P("pin_log2_lo", "exp.rs", r"const LOG2_LO: f32 = " + F + r";"),
] + [P("pin_exp_p%d" % i, "exp.rs", r"const EXP_POLY_%d: f32 = " % i + F + r";") for i in range(7)] + [
    P("pin_exp_overflow", "exp.rs", r"let overflow_mask = ops\.ge\(x, ops\.splat\(" + F + r"\)\);"),
    P("pin_exp_underflow", "exp.rs", r"let underflow_mask = ops\.le\(x, ops\.splat\(" + F + r"\)\);"),
] + [P("pin_tanh_p%d" % i, "tanh.rs", r"const P%d: f32 = " % i + F + r";") for i in (1, 3, 5, 7, 9)] + [
    P("pin_tanh_cutoff", "tanh.rs", r"let x_cutoff = ops\.ge\(abs_x, ops\.splat\(" + F + r"\)\);"),
    P("pin_tanh_tiny", "tanh.rs", r"let x_tiny = ops\.le\(abs_x, ops\.splat\(" + F + r"\)\);"),
    P("pin_tanh_small", "tanh.rs", r"let x_small = ops\.le\(abs_x, ops\.splat\(" + F + r"\)\);"),
    P("pin_sin_pi", "sin_cos.rs", r"const PI: f32 = " + F + r";"),
    P("pin_sin_inv_2pi", "sin_cos.rs", r"const INV_2_PI: f32 = " + F + r";"),
    P("pin_sin_half_pi", "sin_cos.rs", r"const HALF_PI: f32 = " + F + r";"),
    P("pin_sin_large", "sin_cos.rs", r"const LARGE_THRESHOLD: f32 = " + F + r";"),
    P("pin_sin_2pi_hi", "sin_cos.rs", r"let two_pi_hi = ops\.splat\(" + F + r"\);"),
    P("pin_sin_2pi_lo", "sin_cos.rs", r"let two_pi_lo = ops\.splat\(" + F + r"\);"),
    P("pin_sin_a3", "sin_cos.rs", r"let a3 = ops\.splat\(" + F + r"\);"),
    P("pin_sin_a5", "sin_cos.rs", r"let a5 = ops\.splat\(" + F + r"\);"),
    P("pin_sin_b2", "sin_cos.rs", r"let b2 = ops\.splat\(" + F + r"\);"),
    P("pin_sin_b4", "sin_cos.rs", r"let b4 = ops\.splat\(" + F + r"\);"),
    P("pin_erf_p", "erf.rs", r"let p = ops\.splat\(" + F + r"\);"),
] + [P("pin_erf_a%d" % i, "erf.rs", r"let a%d = ops\.splat\(" % i + F + r"\);") for i in range(5)]

# Coq-Interval computes with Coq's primitive 63-bit integers (Bignums on Uint63): the primitives and their
# specification axioms are declared by the Coq standard library (DESIGN.md section 3 lists them as admissible)
INT63_AXIOMS = (["Uint63." + n for n in
                 "of_to_Z lsl_spec lsr_spec land_spec lor_spec lxor_spec add_spec sub_spec mul_spec mulc_spec div_spec mod_spec "
                 "eqb_correct eqb_refl ltb_spec leb_spec compare_def_spec head0_spec tail0_spec addc_def_spec addcarryc_def_spec "
                 "subc_def_spec subcarryc_def_spec diveucl_def_spec diveucl_21_spec addmuldiv_def_spec asr_spec".split()]
                + ["PrimInt63." + n for n in
                   "int lsl lsr land lor lxor asr add sub mul mulc div mod divs mods eqb ltb leb ltsb lesb addc addcarryc subc "
                   "subcarryc diveucl diveucl_21 addmuldiv compare compares head0 tail0".split()])

# documented accuracy bounds (the oracle of the sweeps), pinned from the crate's own doc/tests
BOUND_PINS = [
    P("pin_bound_exp_ulps", "exp.rs", r"const MAX_EXP_ERROR_ULPS: f32 = " + F + r";"),
    P("pin_bound_sigmoid_ulps", "exp.rs", r"const MAX_SIGMOID_ERROR_ULPS: f32 = " + F + r";"),
    P("pin_bound_tanh_ulps", "tanh.rs", r"const MAX_TANH_ERROR_ULPS: f32 = " + F + r";"),
    P("pin_bound_erf_abs", "erf.rs", r"const MAX_EXPECTED_DIFF: f32 = " + F + r";"),
    P("pin_bound_sin_abs", "sin_cos.rs", r"fn test_sin_exhaustive\(\).*?tolerance: Tolerance::Absolute\(" + F + r"\)"),
    P("pin_bound_cos_abs", "sin_cos.rs", r"fn test_cos_exhaustive\(\).*?tolerance: Tolerance::Absolute\(" + F + r"\)"),
]
FN_NAMES = ["exp", "sigmoid", "tanh", "erf", "sin", "cos"]
BOUND_OF = ["pin_bound_exp_ulps", "pin_bound_sigmoid_ulps", "pin_bound_tanh_ulps", "pin_bound_erf_abs", "pin_bound_sin_abs",
            "pin_bound_cos_abs"]
# tolerance on |sum(softmax) - 1|: a choice of this check (the crate documents none); the largest value
# observed on the generators below is about 4e-7
SOFTMAX_TOL = ("1", "100000")


# Literals used ONLY to generate inputs (thresholds whose neighbours are probed) and as the documented bounds when a
# pin cannot be re-extracted from the source.  A missing pin is a translator problem: it is recorded, the theorems
# over it are reported as unchecked, and the search for a failing input still runs with these values.
PIN_DEFAULTS = {
    "pin_exp_overflow": "104.0", "pin_exp_underflow": "-104.0",
    "pin_tanh_cutoff": "9.02", "pin_tanh_tiny": "0.0004", "pin_tanh_small": "0.55", "pin_sin_large": "48000.0",
    "pin_bound_exp_ulps": "1.0", "pin_bound_sigmoid_ulps": "4.0", "pin_bound_tanh_ulps": "3.0",
    "pin_bound_erf_abs": "6.631017e-7", "pin_bound_sin_abs": "3e-7", "pin_bound_cos_abs": "5e-7",
}


def read_pins():
    """Values of the pins that were re-extracted (from the regenerated Pins.v); (values, names that fell back to a default)."""
    vals = {}
    try:
        for l in open(os.path.join(vf.COQ, GROUP, "Pins.v")):
            m = re.match(r"Definition (\w+) : \(Z \* Z\)%type := \((-?\d+), (\d+)\)%Z\.", l)
            if m:
                vals[m.group(1)] = (int(m.group(2)), int(m.group(3)))
    except OSError:
        pass
    defaulted = []
    for name, lit in PIN_DEFAULTS.items():
        if name not in vals:
            n, d = lit_conv(lit).split(", ")
            vals[name] = (int(n), int(d))
            defaulted.append(name)
    return vals, defaulted


def f32_bits(x):
    import struct
    return struct.unpack("<I", struct.pack("<f", x))[0]


def bits_f32(b):
    import struct
    return struct.unpack("<f", struct.pack("<I", b & 0xFFFFFFFF))[0]


def special_inputs(pins):
    q = lambda n: pins[n][0] / pins[n][1]
    base = [0x00000000, 0x80000000, 0x7f800000, 0xff800000, 0x7fc00000, 0xffc00000, 0x7f800001, 0x7fffffff,
            0x00000001, 0x80000001, 0x007fffff, 0x807fffff, 0x00800000, 0x80800000, 0x7f7fffff, 0xff7fffff,
            0x3f800000, 0xbf800000, 0x33800000, 0xb3800000,
            0xffc00001, 0x7fa00000, 0xff800001, 0xffffffff, 0x7fc12345]   # more NaNs: quiet/signalling, both signs, payloads
    near = []
    for v in [q("pin_exp_overflow"), q("pin_exp_underflow"), 88.72284, -87.33655, -103.972, -126.5 * math.log(2) + 0.01,
              q("pin_tanh_cutoff"), q("pin_tanh_tiny"), q("pin_tanh_small"), q("pin_sin_large"), math.pi, math.pi / 2, 2 * math.pi,
              0.5 * math.log(2), 1.5 * math.log(2)]:
        for s in (1.0, -1.0):
            b = f32_bits(s * v)
            near += [b - 1, b, b + 1]
    return sorted(set(b & 0xFFFFFFFF for b in base + near))


def ref64(fn, x):
    """The primary reference in Python: the function in f64, rounded once to f32 (sigmoid: the f32 formula)."""
    r32 = lambda v: bits_f32(f32_bits(v))
    try:
        if fn == 0:
            return r32(math.exp(x))
        if fn == 1:
            return r32(1.0 / r32(1.0 + r32(math.exp(-x))))
        if fn == 2:
            return r32(math.tanh(x))
        if fn == 3:
            return r32(math.erf(x))
        return r32(math.sin(x) if fn == 4 else math.cos(x))
    except (OverflowError, ValueError, struct_error):
        return float("nan")


struct_error = Exception


def split_per_isa(case):
    """A sweep line yields `primary@@secondary`, each holding the worst input of every ISA.  Split so that every
    (reference, ISA) pair is judged and classified on its own."""
    out = []
    isa_names = ["generic", "avx2", "avx512"]
    for which, term in zip(("f64ref", "std32"), case["term"].split("@@")):
        m = re.match(r"\((CUlp|CAbs) (\d+) (\d+) (\d+) \[(.*)\]\)$", term)
        if not m:
            return [case]
        for w in re.findall(r"\{\|.*?\|\}", m.group(5)):
            isa = int(re.search(r"w_isa := (\d+)", w).group(1))
            name = isa_names[isa] if isa < 3 else "isa%d" % isa
            c = dict(case)
            c["term"] = "(%s %s %s %s [%s])" % (m.group(1), m.group(2), m.group(3), m.group(4), w)
            c["tag"] = "%s-%s-%s" % (case["tag"].split("|")[0], which, name)
            c["isa"], c["fn"], c["ref"] = name, int(m.group(2)), which
            c["bound"] = int(m.group(3)) / int(m.group(4))
            c["x"] = int(re.search(r"w_x := (\d+)", w).group(1))
            c["a"] = int(re.search(r"w_actual := (\d+)", w).group(1))
            c["e"] = int(re.search(r"w_expected := (\d+)", w).group(1))
            c["input"] = case["input"] + " #%s-%s" % (which, name)
            out.append(c)
    return out


def ulp_of(e):
    b = f32_bits(e)
    ex = (b >> 23) & 0xFF
    return 2.0 ** -149 if ex == 0 else 2.0 ** (ex - 150)


def classify(case):
    if "fn" not in case:
        return None
    fn, isa = case["fn"], case["isa"]
    x, a, e = bits_f32(case["x"]), bits_f32(case["a"]), bits_f32(case["e"])
    if a != a or e != e or abs(a) == float("inf") or abs(e) == float("inf"):
        return None
    # F54 (known): Sin / Cos exceed the documented absolute bound for LARGE arguments.  Generic ISA (no fused
    # multiply-add: k * two_pi_lo is rounded): from |x| ~ 5000, error < 1e-6.  FMA ISAs: a handful of inputs with
    # |x| >= 32768, error < 4e-7 (sin only).  Matched for either reference; anything else is a violation.
    if fn in (4, 5) and abs(x) < 48000.0:
        if isa == "generic" and abs(x) >= 512.0 and abs(a - e) < 1e-6:
            return "F54"
        if isa != "generic" and fn == 4 and abs(x) >= 32768.0 and abs(a - e) < 4e-7:
            return "F54"
    # F55 (known): against THIS PLATFORM's f32::tanh (glibc tanhf) the distance reaches 4 ULP near 0.473 although the
    # distance to the correctly rounded value is <= 2 ULP there: the platform routine itself is off.  Matched only for
    # the std32 reference, tanh, when the f64 reference at the same input IS within the documented bound.
    if case.get("ref") == "std32" and fn == 2:
        r = ref64(fn, x)
        if r == r and abs(a - r) <= case["bound"] * ulp_of(r) and abs(a - e) <= 5 * ulp_of(e):
            return "F55"
    return None


def main(ctx):
    ctx.rule = ("per function (exp, sigmoid, tanh, erf, sin, cos) and per ISA available on this CPU: quick = 2^20 inputs, one per "
                "sign/exponent/11-leading-mantissa-bit prefix with pseudo-random low bits; thorough = all 2^32 bit patterns; the input "
                "with the largest distance to the documented reference is the case judged (exactly, from bit patterns) by the Coq oracle; "
                "special values (NaN payloads, +-inf, +-0, subnormals, extremes and the neighbours of every pinned threshold) one case "
                "each per ISA; softmax on seeded vectors of 8 styles, lengths 0..4*lanes+3 and long, in place and src->dst. "
                "non-trivial = every case; distinct = distinct input line")
    ctx.trusted += ["reference functions: Rust std f32::exp/tanh/sin/cos, 1/(1+exp(-x)) in f32, libm::erff (the references the "
                    "crate's documentation and tests name); no formal model of libm exists",
                    "Coq-Interval (floating-point interval arithmetic inside Coq, checked by the kernel via vm_compute)",
                    "translator f32 literal -> exact rational: checks/C19.py:lit_conv",
                    "the hook rten-simd/src/verif.rs to evaluate the kernels on a named ISA"]
    ctx.audit(GROUP)
    problems = ctx.pins(GROUP, PINS + BOUND_PINS)
    # coqchk on a module that depends on Coq-Interval would re-check Coquelicot, Flocq, mathcomp and Interval
    # (tens of minutes): the framework's recursive coqchk is replaced by a non-recursive one on this group's modules
    saved = os.environ.get("VERIF_NO_COQCHK")
    os.environ["VERIF_NO_COQCHK"] = "1"
    try:
        failed = ctx.prove(GROUP, "Props_C19", THEOREMS, timeout=2400, extra_allowed=INT63_AXIOMS)
    finally:
        if saved is None:
            del os.environ["VERIF_NO_COQCHK"]
        else:
            os.environ["VERIF_NO_COQCHK"] = saved
    if not ctx.quick() and not failed and saved != "1":
        mods = ["Pins", "VecMathReal", "VecMath_proofs", "Props_C19"]
        cmd = ["coqchk", "-silent", "-o", "-Q", "../common", "RV", "-Q", ".", "VecMath"]
        for m_ in mods:
            cmd += ["-norec", "VecMath." + m_]
        rc, out = vf.sh(cmd, cwd=os.path.join(vf.COQ, GROUP), timeout=1500)
        ctx.extra.setdefault("coqchk", []).append({"module": "Props_C19 (-norec: this group's modules only)", "ok": rc == 0, "tail": out[-400:]})
        ctx.checker_cmds.append("coqchk -silent -o -norec VecMath.{Pins,VecMathReal,VecMath_proofs,Props_C19}")
        if rc not in (0, 124):
            raise vf.CheckerBroken("coqchk rejected Props_C19: " + out[-800:])
    bad_oracle = ctx.prove(GROUP, "Props_C19_oracle", ["C19_ulp_oracle_meaning", "C19_abs_oracle_meaning", "C19_decode_examples",
                                                       "C19_F54_witness", "C19_F55_witness"])
    if bad_oracle:
        raise vf.CheckerBroken("the oracle module Props_C19_oracle.v does not compile (it does not depend on the pins)")
    pins, defaulted = read_pins()
    if defaulted:
        ctx.notes.append("pins not re-extracted, literal defaults used for input generation / bounds: %s" % ", ".join(defaulted))
        ctx.log("pins not found in the source (defaults used to generate inputs): %s" % ", ".join(defaulted))
    bindir = ctx.harness(GROUP, profile="release", bins=["c19"])
    rc, out = ctx.run_bin(os.path.join(bindir, "c19"), ["isas"])
    isas = out.split()
    ctx.extra["isas"] = isas
    if len(isas) < 3:
        ctx.assumptions.append("this CPU offers only %s: the other ISAs were not exercised on this run" % isas)

    lines = ctx.replay_inputs()
    if lines:
        lines = [l.split("#")[0].strip() for l in lines]
    else:
        lines = []
        mode = "strat 20 %d" % ctx.seed if ctx.quick() else "all"
        for f in range(6):
            num, den = pins[BOUND_OF[f]]
            lines.append("%s %d %d %d %s" % ("ulp" if f < 3 else "abs", f, num, den, mode))
            if not ctx.quick():
                lines.append("%s %d %d %d strat 20 %d" % ("ulp" if f < 3 else "abs", f, num, den, ctx.seed))
        for f in range(6):
            num, den = pins[BOUND_OF[f]]
            for isa in isas:
                for b in special_inputs(pins):
                    lines.append("special %d %s %d %d %d %d" % (f, isa, 0 if f < 3 else 1, num, den, b))
        rng = vf.SplitMix64(ctx.seed)
        lanes = {"generic": 4, "avx2": 8, "avx512": 16}
        for isa in isas:
            w = lanes.get(isa, 4)
            lens = list(range(0, 4 * w + 4)) + [100, 257, 1000, 4099]
            for style in range(8):
                for ln in (lens if style < 2 or not ctx.quick() else [0, 1, w - 1, w, w + 1, 2 * w + 3, 257]):
                    lines.append("softmax %s %d %d %d %d %s %s" % (isa, rng.next() >> 20, ln, style, rng.below(2), SOFTMAX_TOL[0], SOFTMAX_TOL[1]))
    raw = ctx.gen_exec(bindir, "c19", 0, inputs=lines, timeout=6000)
    cases = []
    summary = {}
    for c in raw:
        if "|" in c["tag"]:
            parts = c["tag"].split("|")
            summary[parts[0]] = {"worst_vs_f64_reference_rounded": parts[1], "worst_vs_platform_f32_routines": parts[2]}
        m = re.match(r"\(CSpecial (\d+) (\d+) (\d+) (\d+) (\d+) (\d+) (\d+) (\d+)\)$", c["term"])
        if m:
            g = [int(v) for v in m.groups()]
            c.update({"fn": g[0], "isa": (["generic", "avx2", "avx512"] + ["?"] * 7)[g[1]], "ref": "f64ref",
                      "bound": g[3] / g[4], "x": g[5], "a": g[6], "e": g[7]})
        cases += split_per_isa(c)
    ctx.extra["measured_max_distance"] = summary
    ctx.exhaustive = (not ctx.quick()) and not ctx.replay_path
    ctx.correspond("vecmath-accuracy", GROUP, REQ, cases, classify=classify, show="show", shard=400,
                   fn_name="documented accuracy bounds (VecMath.VecMathModel oracles)")
    if problems and not ctx.violations:
        ctx.violation({"kind": "pin-broken", "problems": problems, "theorems_not_checked": failed,
                       "build_error": getattr(ctx, "build_error", "")[-1500:],
                       "searched": "special values (NaN payloads, +-inf, +-0, subnormals, thresholds +-1 ulp) and the ULP / absolute-error "
                                   "sweeps of every function on every ISA",
                       "explain": "constants the theorems are stated over could not be re-extracted from the source (the code around the "
                                  "anchor changed), so the theorems no longer speak about the code; no failing input was found"},
                      no_input=True)
    if failed and not ctx.violations:
        ctx.proof_broken(failed, "the ULP / absolute-error sweeps of this run (%s) on every ISA" % ("2^20 stratified inputs per function" if ctx.quick() else "all 2^32 inputs per function"))
