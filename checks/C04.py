"""C04 -- Partial evaluation composes with full evaluation."""
import vf

META = {
    "claimed": False,
    "text": "work in progress",
    "note": "",
    "technique": "Coq proof + model/implementation correspondence",
}
GROUP = "exec"
REQ = ("From RV Require Import Prelude.\nFrom Planner Require Import Graph.\n"
       "From Exec Require Import ExecModel ModelTestOps PartialModel.\nOpen Scope N_scope.\n"
       "Notation case := case4 (only parsing).")
THEOREMS = []


def main(ctx):
    ctx.audit(GROUP, "planner")
    failed = ctx.prove(GROUP, "Props_C04", THEOREMS) if THEOREMS else []
    ok, out = ctx.make(GROUP, ["PartialModel.vo"])
    if not ok:
        raise vf.CheckerBroken("PartialModel.v does not compile: " + out[-500:])
    bindir = ctx.harness(GROUP, profile="release", bins=["c04"])
    cases = ctx.gen_exec(bindir, "c04", ctx.n(200, 4000), inputs=ctx.replay_inputs())
    ctx.correspond("partial_run+run-vs-run", GROUP, REQ, cases, agree="prop_ok4", prop_ok="prop_ok4", show="show4",
                   shard=25, fn_name="Exec.PartialModel.prop_ok4 (completing a partial run = full run, for all input subsets)")
    dis, _, err = ctx.coq_eval_cases(GROUP, REQ, [c["term"] for c in cases], "agree4", "prop_ok4", 25, tag="det")
    ctx.extra["prune_model_disagreements"] = (len(dis) if not err else "evaluation error: " + str(err)[:300])
    if dis:
        ctx.log("note: %d case(s): leaf set / leaf values differ from the model of prune_plan; first: %s" % (len(dis), cases[dis[0]]["input"][:300]))
    if failed and not ctx.violations:
        ctx.proof_broken(failed, "all correspondence cases of this run")
