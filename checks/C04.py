"""C04 -- Partial evaluation composes with full evaluation."""
import vf

META = {
    "claimed": True,
    "text": ("Coq theorems over a model of Planner::prune_plan / Graph::partial_run on top of the executor model of C02: prune_plan never "
             "keeps an operator whose is_deterministic() is false, so partial evaluation (and constant propagation, which uses it) never "
             "runs one (C04_nondeterministic_never_partial); for ALL graphs, input subsets and outputs: when the partial evaluation of the "
             "pruned plan on the subset, the full evaluation, and the completing evaluation on (leaves + remaining inputs) succeed, the last "
             "two return the same outputs - even if non-deterministic operators behave differently during the partial run "
             "(C04_partial_then_run, on the naive evaluation to which Graph::run is tied by C02); every resolved dependency of a pruned-away "
             "operator and every producible requested output is among the returned leaves (C04_leaves_sufficient, C04_outputs_returned). "
             "Tie: on random DAGs of test operators with one non-deterministic operator (fresh counter), for ALL subsets of <= 5 inputs: "
             "Graph::partial_run then Graph::run((I minus I0) + leaves) vs a single Graph::run; alarm when they differ or when the "
             "non-deterministic operator ran during partial_run; leaf ids/values are also compared with the model (informational)."),
    "note": ("Trusted: Coq kernel; correspondence sample; is_deterministic() is trusted per operator; success of the completing run is exercised, "
             "not proved (only sufficiency of the leaf set is); the allow-missing plan is taken from the implementation (its validity is C03's subject)."),
    "technique": "Coq proof (fold invariants of prune_plan; equation-consistency argument between two evaluations) + model/implementation correspondence",
}
GROUP = "exec"
REQ = ("From RV Require Import Prelude.\nFrom Planner Require Import Graph.\n"
       "From Exec Require Import ExecModel ModelTestOps PartialModel.\nOpen Scope N_scope.\n"
       "Notation case := case4 (only parsing).")
THEOREMS = ["C04_nondeterministic_never_partial", "C04_partial_then_run", "C04_leaves_sufficient", "C04_outputs_returned",
            "C04_empty_plan", "C04_prop_ok_reflect", "C04_nonvacuous"]


def one_pass(ctx, name, cases, agree, prop_ok, show, shard, fn_name, classify=None):
    """Evaluate the informational model-agreement function and the property oracle in ONE Coq pass
    over all cases (case terms are large), then hand only the cases that fail the oracle to
    ctx.correspond (which alarms, classifies known findings and writes replay files).
    Returns the indices on which the implementation deviates from the deterministic model."""
    import hashlib
    dis, pf, err = ctx.coq_eval_cases(GROUP, REQ, [c["term"] for c in cases], agree, prop_ok, shard, tag="all")
    if err:
        raise vf.CheckerBroken("model evaluation failed for %s: %s" % (name, err))
    bad = set(pf)
    for i, c in enumerate(cases):
        if i in bad:
            continue  # accounted for by ctx.correspond below
        ctx.evals += 1
        t = c.get("tag", "")
        ctx.hist[t] = ctx.hist.get(t, 0) + 1
        if not t.startswith("trivial"):
            ctx.distinct.add(hashlib.sha1(c["input"].encode()).hexdigest())
    for c in cases[:3]:
        if len(ctx.samples) < 12:
            ctx.samples.append({"check": name, "input": c["input"][:400], "tag": c.get("tag", "")})
    ctx.log("correspondence %s: %d cases, %d fail the property oracle, %d deviate from the deterministic model"
            % (name, len(cases), len(pf), len(dis)))
    if pf:
        ctx.correspond(name, GROUP, REQ, [cases[i] for i in pf], classify=classify, agree=prop_ok, prop_ok=prop_ok,
                       show=show, shard=shard, fn_name=fn_name)
    else:
        ctx.corr.append({"name": name, "cases": len(cases), "disagree": 0, "property_failures": 0})
    return dis


def main(ctx):
    ctx.rule = ("seeded random DAGs (1..12 test operators, one flagged non-deterministic in 4 of 5 cases) over 1..5 inputs, small tensors; "
                "per case ALL 2^n input subsets: partial_run(I0), run(rest + leaves), compared with run(I); non-trivial = partial evaluation "
                "ran at least one operator or the non-deterministic operator is needed")
    ctx.trusted += ["Operator::is_deterministic() is trusted per operator"]
    ctx.audit(GROUP, "planner")
    failed = ctx.prove(GROUP, "Props_C04", THEOREMS) if THEOREMS else []
    ok, out = ctx.make(GROUP, ["PartialModel.vo"])
    if not ok:
        raise vf.CheckerBroken("PartialModel.v does not compile: " + out[-500:])
    bindir = ctx.harness(GROUP, profile="release", bins=["c04"])
    cases = ctx.gen_exec(bindir, "c04", ctx.n(200, 1000), inputs=ctx.replay_inputs())
    dis = one_pass(ctx, "partial_run+run-vs-run", cases, "agree4", "prop_ok4", "show4", 13 if ctx.quick() else 25,
                   "Exec.PartialModel.prop_ok4 (completing a partial run = full run, for all input subsets)")
    ctx.extra["prune_model_disagreements"] = len(dis)
    if dis:
        ctx.log("note: %d case(s): leaf set / leaf values differ from the model of prune_plan; first: %s" % (len(dis), cases[dis[0]]["input"][:300]))
    if failed and not ctx.violations:
        ctx.proof_broken(failed, "all correspondence cases of this run")
