"""C26 -- Invalid run requests are reported as errors (DESIGN.md section 2, C26)."""
import vf

META = {
    "claimed": True,
    "text": ("Coq theorems over a Gallina model of the request path of Model::run / Model::partial_run (= Graph::run / "
             "Graph::partial_run: validate_inputs, CachedPlan::matches + get_cached_plan, Planner::create_plan, "
             "prune_plan, and the parts of run_plan that can panic: operator-input lookup and output hand-out), with "
             "Panic as an explicit outcome: for every well-formed closed graph, every plan-cache state reachable by "
             "earlier calls and every request, the outcome is Ok or Err, never Panic and never a hang; Ok is returned "
             "only if every id is a distinct value node, every input agrees with the declared dtype / rank / fixed "
             "dims, and every requested output is obtainable from the supplied inputs -- i.e. each class of invalid "
             "request yields Err. The model is tied to the code by running both on sequences of valid and invalid "
             "requests (cold and warm plan cache) and comparing outcome, error kind and executed operator sequence "
             "inside Coq; the implementation's answers are also checked by a reflected oracle (never Panic/hang; Ok only if "
             "the inputs validate, ids are distinct value nodes and the executed sequence is a valid plan for the request)."),
    "note": ("Partial: operator kernels are not modelled (the harness uses a test operator that accepts every input), so "
             "panics inside kernels on well-typed but odd inputs are out of scope; refcount-driven freeing in run_plan "
             "is abstracted (values stay available), which is C02's subject. Two drivers: arbitrary test graphs through the "
             "hook (Graph::run / Graph::partial_run, which Model::run / Model::partial_run delegate to), and the PUBLIC API "
             "(Model::load on hand-encoded ONNX bytes, then Model::run / Model::partial_run with real Add/Relu/Identity "
             "kernels, inputs kept kernel-compatible). Findings F12 (duplicate ids hit the plan cache and panicked) and F20 (partial_run listed "
             "an output twice and panicked) are fixed in the tree the model describes."),
    "technique": "Coq proof (cache invariant + plan validity => run_plan bookkeeping cannot fail) + model/implementation correspondence",
}
GROUP = "planner"
REQ = "From RV Require Import Prelude.\nFrom Planner Require Import Graph PlannerModel PlanCache Validate.\nOpen Scope N_scope.\nNotation case := case26 (only parsing)."
THEOREMS = ["C26_request_no_panic", "C26_run_preserves_cache", "C26_invalid_request_errs",
            "C26_unknown_or_operator_id_errs", "C26_duplicate_id_errs", "C26_missing_input_errs",
            "C26_metadata_mismatch_errs", "C26_partial_run_no_panic", "C26_oracle_sound",
            "C26_example_closed", "C26_example_runs"]


def main(ctx):
    ctx.rule = ("per case one random closed graph (1-3 typed inputs with dtype/shape metadata, 0-1 constants, 1-5 operators incl. "
                "multi-output, optional inputs, captures, outputs that are graph inputs) and a sequence of 2-6 run/partial_run "
                "requests; systematic part: each of 30 mutation classes (unknown / operator / duplicated input or output id, "
                "missing / extra inputs, constant as input, dtype / sequence / rank / dim mismatch, permutations, inputs or "
                "constants as outputs, partial_run, the F12 shapes [a,a,b] after {a,b,c}) applied cold (first request) and warm "
                "(after a successful run); random part: 0-2 mutations per request. non-trivial = every case")
    ctx.trusted += ["operator kernels are not modelled: test operator of the hook (sums its inputs); Add/Relu/Identity in the public-API run",
                    "hook rten::verif::planner::TestGraph::{run,partial_run} call Graph::run / Graph::partial_run, "
                    "which Model::run / Model::partial_run delegate to"]
    ctx.audit(GROUP)
    failed = ctx.prove(GROUP, "Props_C26", THEOREMS)
    ok, out = ctx.make(GROUP, ["Validate.vo"])
    if not ok:
        raise vf.CheckerBroken("model does not build: " + out[-1500:])
    bindir = ctx.harness(GROUP, profile="release", bins=["c26"])
    cases = ctx.gen_exec(bindir, "c26", ctx.n(600, 12000), inputs=ctx.replay_inputs())
    ctx.correspond("run_request", GROUP, REQ, cases, show="show26", agree="agree26", prop_ok="prop_ok26",
                   shard=ctx.n(150, 400), fn_name="Planner.Validate.{run,partial_run} vs Graph::{run,partial_run}")
    # the same model against the PUBLIC API: Model::load (hand-encoded ONNX bytes) + Model::run / partial_run
    bindir = ctx.harness(GROUP, profile="release", bins=["c26m"])
    cases_m = ctx.gen_exec(bindir, "c26m", ctx.n(150, 3000), inputs=ctx.replay_inputs())
    ctx.correspond("model_run_public_api", GROUP, REQ, cases_m, show="show26", agree="agree26", prop_ok="prop_ok26",
                   shard=ctx.n(150, 400), fn_name="Planner.Validate.{run,partial_run} vs Model::{run,partial_run}")
    if failed and not ctx.violations:
        ctx.proof_broken(failed, "all correspondence cases of this run")
