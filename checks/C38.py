"""C38 -- The ONNX protobuf decoder terminates and never panics (DESIGN.md section 2, C38)."""
import re
import vf

META = {
    "claimed": True,
    "text": ("Coq theorems over a Gallina model of rten-onnx's protobuf decoder (read_varint, ValueReader, LimitReader, "
             "Fields::next, Field::{skip,read_*,read_message,read_repeated_*} and the generic DecodeMessage walker), for EVERY "
             "byte string, every dispatch table, debug and release arithmetic: read_varint stops within MAX_VARINT_LEN+1 loop "
             "iterations; each decoded field moves the position strictly forward, so decoding finishes within |input| fields "
             "(the model's fuel |input|+1 is never exhausted); no panic, allocation-failure or stack-overflow outcome is "
             "reachable; a length-delimited field longer than the remaining input makes the decode fail. Witness lemmas refute "
             "each of these for the code before the six fix commits (F1, F2, F38a, F38b, F38c, F38d). The model is tied to the code by "
             "running ModelProto::parse_buf, parse_file and is_onnx_model and the model on the same inputs (release and debug "
             "builds) and comparing outcome, error kind and a summary of the decoded top-level message inside Coq; constants, "
             "fix markers and the onnx.rs field dispatch tables are re-extracted from the Rust source on every run."),
    "note": ("Trusted: Coq kernel; the correspondence sample (a test); std::io::{Cursor, BufReader, Read::take/read_to_end, "
             "seek_relative}, String::from_utf8 and Vec growth are hand-modelled, not verified; BufRead chunking is abstracted "
             "(byte-wise loop); the file path (ReadPos<BufReader<File>>) is only compared with the buffer path by running both. "
             "'Linear time' is proved as a bound on loop iterations/fields, not on machine time. A message whose last tag "
             "varint is cut off by the end of the input still decodes successfully (outside the property's wording)."),
    "technique": "Coq proof (induction on fuel with a position measure, machine arithmetic explicit) + model/implementation correspondence",
}
GROUP = "proto"
REQ = "From RV Require Import Prelude.\nFrom Proto Require Import Pins Model.\nOpen Scope N_scope."
THEOREMS = ["C38_read_varint_terminates", "C38_position_strictly_increases", "C38_parse_terminates",
            "C38_no_panic", "C38_len_exceeds_input_is_error", "C38_decode_total",
            "C38_F1_refuted", "C38_F2_release_refuted", "C38_F2_debug_refuted", "C38_F38a_refuted",
            "C38_F38b_refuted", "C38_F38c_refuted", "C38_F38d_refuted", "C38_nonvacuous"]

VARINT = "rten-onnx/src/protobuf/varint.rs"
VALUE = "rten-onnx/src/protobuf/value.rs"
FIELD = "rten-onnx/src/protobuf/field.rs"
ONNX = "rten-onnx/src/onnx.rs"
WHOLE = r"\A(.*)\Z"


def _const_expr(name):
    def conv(src):
        m = re.search(r"const %s: \w+ = ([^;]+);" % name, src)
        if not m:
            return "0"
        e = m.group(1).replace("_", "").strip()
        if not re.fullmatch(r"[0-9 <*+()]+", e):
            raise ValueError("cannot evaluate " + e)
        return str(int(eval(e)))
    return conv


ACTION_CODES = [
    (r"(\w+)::decode_field", None),  # message: code 100 + type id
    (r"read_repeated_float", 6), (r"read_repeated_double", 7),
    (r"read_repeated_(?:int32|int64|uint64)", 5),
    (r"read_string", 3), (r"read_bytes", 4), (r"get_float", 2),
    (r"get_(?:int64|int32|enum)", 1), (r"\.skip\(\)", 0),
]


def parse_onnx(src):
    """Field dispatch tables of the DecodeMessage impls in onnx.rs.
    Returns (type names in order, {type: [(number, code)]})."""
    consts = {}
    for m in re.finditer(r"^impl (\w+) \{\n(.*?)^\}", src, re.S | re.M):
        for c in re.finditer(r"const (\w+): u64 = (\d+);", m.group(2)):
            consts[(m.group(1), c.group(1))] = int(c.group(2))
    impls = list(re.finditer(r"^impl DecodeMessage for (\w+) \{\n(.*?)^\}", src, re.S | re.M))
    names = [m.group(1) for m in impls]
    tables = {}
    for m in impls:
        name, body = m.group(1), m.group(2)
        if body.count("match field.number()") != 1 or "while let Some(mut field) = fields.next()?" not in body:
            raise ValueError("decoder of %s has an unexpected shape" % name)
        arms = re.findall(r"^ {16}(\w+)::(\w+) => \{\n(.*?)^ {16}\}", body, re.S | re.M)
        dflt = re.findall(r"^ {16}_ => \{\n(.*?)^ {16}\}", body, re.S | re.M)
        if len(dflt) != 1 or "field.skip()?" not in dflt[0]:
            raise ValueError("default arm of %s is not a skip" % name)
        n_arms = len(re.findall(r"^ {16}\S.* => \{", body, re.M))
        if n_arms != len(arms) + 1:
            raise ValueError("unparsed match arm in %s" % name)
        rows = []
        for owner, cname, abody in arms:
            owner = name if owner == "Self" else owner
            number = consts[(owner, cname)]
            code = None
            for pat, k in ACTION_CODES:
                mm = re.search(pat, abody)
                if mm:
                    code = (100 + names.index(mm.group(1))) if k is None else k
                    break
            if code is None:
                raise ValueError("cannot classify arm %s::%s" % (owner, cname))
            rows.append((number, code))
        tables[name] = rows
    return names, tables


def _schema(src):
    names, tables = parse_onnx(src)
    return "[" + "; ".join("(%d, [%s])" % (i, "; ".join("(%d, %d)" % r for r in tables[n])) for i, n in enumerate(names)) + "]"


def _msg_id(name):
    return lambda src: str(parse_onnx(src)[0].index(name))


def _field(cname):
    def conv(src):
        ms = re.findall(r"const %s: u64 = (\d+);" % cname, src)
        if len(ms) != 1:
            raise ValueError("%s defined %d times" % (cname, len(ms)))
        return ms[0]
    return conv


def _flag(*needles):
    return lambda src: "true" if all(n in src for n in needles) else "false"


PINS = [
    vf.Pin("MAX_VARINT_LEN", VARINT, r"const MAX_VARINT_LEN: usize = (\d+);"),
    vf.Pin("VARINT_EXIT_GE", VARINT, r"if index (>=|>) MAX_VARINT_LEN \{", "bool",
           conv=lambda t: {">=": "true", ">": "false"}[t]),
    vf.Pin("LIMIT_CHECKED", VALUE, WHOLE, "bool", conv=_flag("position().checked_add(", "saturating_add(len)", "i64::try_from(len)")),
    vf.Pin("LIMIT_OPTIONAL_END", VALUE, WHOLE, "bool", conv=_flag("end: Option<u64>", "self.end.is_some() && matches!(err.kind(), ErrorKind::Eof)",
                                                                  "self.inner.seek_relative(offset - 1)?")),
    vf.Pin("MAX_PREALLOC", VALUE, WHOLE, conv=_const_expr("MAX_PREALLOC")),
    vf.Pin("MAX_DEPTH", FIELD, WHOLE, conv=_const_expr("MAX_DEPTH")),
    vf.Pin("PACKED_LEN_MISMATCH", FIELD, WHOLE, "bool", conv=_flag("if !reader.at_end() {", "ErrorKind::FieldLengthMismatch")),
    vf.Pin("ONNX_SCHEMA", ONNX, WHOLE, "list (N * list (N * N))", conv=_schema),
    vf.Pin("MSG_MODEL", ONNX, WHOLE, conv=_msg_id("ModelProto")),
    vf.Pin("MSG_SLIM", ONNX, WHOLE, conv=_msg_id("SlimModelProto")),
    vf.Pin("F_IR_VERSION", ONNX, WHOLE, conv=_field("IR_VERSION")),
    vf.Pin("F_GRAPH", ONNX, WHOLE, conv=_field("GRAPH")),
    vf.Pin("F_OPSET_IMPORT", ONNX, WHOLE, conv=_field("OPSET_IMPORT")),
    vf.Pin("F_METADATA_PROPS", ONNX, WHOLE, conv=_field("METADATA_PROPS")),
    vf.Pin("F_PRODUCER_NAME", ONNX, WHOLE, conv=_field("PRODUCER_NAME")),
    vf.Pin("F_PRODUCER_VERSION", ONNX, WHOLE, conv=_field("PRODUCER_VERSION")),
]


def trim_pins(ctx):
    for p in ctx.pins_rec:
        if len(p["text"]) >= 200:
            p["text"] = p["text"][:60] + " ... (whole file scanned by a translator in checks/C38.py)"


def main(ctx):
    ctx.rule = ("valid ONNX-shaped messages from the harness' protobuf writer; field-level mutations (varints near 2^63/2^64, "
                "non-canonical and over-long varints, lengths equal to / one beyond / far beyond the remaining input, "
                "self-referential lengths, every wire type 0..7 on every known field number of every message type, nesting "
                "around the depth limit, truncation at every offset of a small valid message); random bytes. Each input is "
                "decoded by parse_buf, parse_file and is_onnx_model in a release and in a debug build. Non-trivial = non-empty input.")
    ctx.trusted += ["modelled, not verified: std::io::Cursor / BufReader<File> (read_exact, seek_relative, fill_buf/consume), "
                    "Read::take + read_to_end, Vec::with_capacity, String::from_utf8",
                    "BufRead chunking abstracted to a byte-wise loop (read_varint's result does not depend on chunk sizes)",
                    "the harness' worker-process isolation (2 s watchdog => Timeout, dead worker => Abort)"]
    ctx.assumptions += ["64-bit target (usize = u64)",
                        "no-crash theorem: one allocation of MAX_PREALLOC bytes succeeds and MAX_DEPTH+1 nested decode frames fit on the stack"]
    ctx.audit(GROUP)
    probs = ctx.pins(GROUP, PINS)
    trim_pins(ctx)
    if probs:
        raise vf.CheckerBroken("source pins no longer match: " + "; ".join(probs))
    failed = ctx.prove(GROUP, "Props_C38", THEOREMS)
    import os
    n = int(os.environ.get("VERIF_CASES", ctx.n(800, 20000)))
    for profile in ("release", "debug"):
        bindir = ctx.harness(GROUP, profile=profile, bins=["c38"], hooks=False)
        # the dispatch-table family does not depend on overflow behaviour: release build only
        cases = ctx.gen_exec(bindir, "c38", n, extra_gen=(["skip=dispatch"] if profile == "debug" else []),
                             inputs=ctx.replay_inputs())
        for c in cases:
            c["tag"] = ("dbg-" if profile == "debug" else "rel-") + c["tag"]
        ctx.correspond("decode-" + profile, GROUP, REQ, cases, show="show", shard=400,
                       fn_name="Proto.Model.decode (ModelProto::parse_buf / parse_file / is_onnx_model, %s build)" % profile)
    if failed and not ctx.violations:
        ctx.proof_broken(failed, "all correspondence cases of this run")
