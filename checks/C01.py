"""C01 -- Graph optimization preserves model semantics (DESIGN.md section 2, C01)."""
import vf

META = {
    "claimed": True,
    "text": ("PROVED in Coq for ALL graphs/inputs over an abstract SSA graph language with arbitrary operator semantics (model of "
             "GraphMutator::apply_fusion / replace_value / propagate_constants in src/optimize.rs): (1) replacing a sub-DAG by one operator "
             "(Fusion::Op) or aliasing its output to an available value (Fusion::Identity/Constant) preserves every successful run and the "
             "output id list, given the code's guards (intermediate used outside the sub-DAG / is a graph output / captured by a subgraph) "
             "and local equivalence of the replacement; (2) any finite sequence of such steps and of constant folding of deterministic "
             "operators is sound, so pass order is unconstrained; (3) local equivalences for all shapes and data, any element type: "
             "IdentityFusion (x+0, x-0, x*1, x/1, 0+x, 1*x with a single-element constant under ONNX broadcasting) and "
             "Unsqueeze+Expand+Reshape = RepeatInterleave, each under the guard of the REPAIRED code, plus refuting witnesses for the guards "
             "of the unchanged code (F9, F10). EXERCISED ONLY (differential, not proved): all other fusions (Gelu, ApproxGelu, Silu, Swish, "
             "Reciprocal, LayerNorm, RMSNorm, ReduceMean-axes, MatMul+Add, MatMul scale, MatMulInteger/ConvInteger-to-float, Conv+Add, "
             "SafeSoftmax, Add+Softmax, GroupedQueryAttention, Transpose fusion, ShapeSliceToConstant, ComputeShape, CastElimination), "
             "shape-inference constant replacement and constant propagation on the real code. Tie: generated ONNX bytes (every fusion "
             "pattern with randomised constant ranks/shapes/values, operand order, axes, reuse of intermediates, intermediates as outputs, "
             "embedded in random glue operators; <= ~14 operators, rank <= 4, dims <= 6) are loaded with optimisation off and on x shape "
             "inference off/on/strict and run on integer-valued inputs; outputs are compared inside Coq (dtype, shape, values exactly for "
             "integer-exact graphs, else within 2^-11 with identical NaN/inf positions); a hook dumps the optimized graph and 'fusion fired' "
             "is compared with the Coq guard for IdentityFusion, MatMulAddFusion, TransposeFusion(MatMul) and RepeatInterleaveFusion."),
    "note": ("Trusted: Coq kernel; the harness (ONNX writer, loader/run calls, f32 -> (mantissa, exponent) printing; RSame = bit-identical "
             "to the baseline run); the differential is a test. Subgraph (If/Loop) captures are modelled (guard_capture) but not generated. "
             "The tensor model covers shapes + row-major data with ONNX broadcasting over an arbitrary element type; float identities "
             "(x+0=x etc.) hold up to the sign of zero, which the oracle treats as equal. Residual of F10 named in docs/C01.md: when neither "
             "the Expand output shape nor a constant Expand shape is available the repaired fusion still trusts the shapes of x and the "
             "Reshape output (pinned by unit test test_fuse_repeat_interleave)."),
    "technique": "Coq proof (simulation over an abstract SSA graph language; structural induction over row-major tensors) + guard correspondence via an optimized-graph dump hook + end-to-end differential evaluated by a reflected Coq oracle",
}
GROUP = "opt"
REQ = "From RV Require Import Prelude.\nFrom Opt Require Import ModelC01.\nOpen Scope Z_scope."
THEOREMS = ["C01_rewrite_sound", "C01_rename_sound", "C01_fixpoint_sound", "C01_fusion_step_refines", "C01_const_fold_sound",
            "C01_identity_fusion_local", "C01_identity_fusion_local_refuted", "C01_repeat_interleave_local",
            "C01_repeat_interleave_local_refuted", "C01_oracle_reflects", "C01_nonvacuous"]


def main(ctx):
    ctx.rule = ("seeded generator: 3 of 4 cases are random graphs (1-3 fusion-pattern templates out of 24 + glue operators, <= ~14 operators, "
                "rank <= 4, dims <= 6, inputs declared with fixed / symbolic (own or shared names) / unnamed dynamic ('?') dims / no shape and run with sizes that differ wherever the declaration allows, optional value_info (fixed or partly unnamed dims) for all intermediates, some "
                "intermediates also declared as graph outputs), 1 of 4 is a guard-focus case (exactly one pattern of IdentityFusion / "
                "MatMulAdd / Transpose+MatMul / RepeatInterleave with a randomised constant rank/shape/value or axis, optionally an extra "
                "consumer of an intermediate or an intermediate as graph output); every case is loaded and run under 4 configurations; "
                "trivial = the unoptimized model does not load or run; tag suffix ~ = compared with tolerance (not integer-exact)")
    ctx.trusted += ["harness/opt: ONNX protobuf writer, f32 -> exact (m, e) encoding, RSame compression of bit-identical outcomes (baseline outputs are elided as `ROk []` when every other configuration is RSame or failed)",
                    "hook rten::verif::opt::dump_model (cfg rten_verif) for 'which fusion fired'",
                    "not proved, only differenced: all fusions other than IdentityFusion and RepeatInterleaveFusion, shape inference, "
                    "constant propagation on the real code, operator kernels"]
    ctx.assumptions += ["inputs conform to the declared shapes; values are small integers so that algebraic fusions are exact in f32"]
    ctx.audit(GROUP)
    failed = ctx.prove(GROUP, "Props_C01", THEOREMS)
    ok, out = ctx.make(GROUP, ["ModelC01.vo"])
    if not ok:
        raise vf.CheckerBroken("model does not compile: " + out[-800:])
    bindir = ctx.harness(GROUP, profile="release", bins=["c01"])
    cases = ctx.gen_exec(bindir, "c01", ctx.n(1600, 12000), inputs=ctx.replay_inputs(), timeout=3000)
    ctx.extra["baseline_failures"] = sum(1 for c in cases if c["tag"].startswith("trivial"))
    ctx.extra["focus_cases"] = sum(1 for c in cases if c["tag"].startswith("focus-"))
    ctx.correspond("optimize-differential+guards", GROUP, REQ, cases, show="show", shard=120,
                   fn_name="Opt.ModelC01.guard_of (fusion fired) / prop_ok (optimisation off vs on x shape inference)")
    if failed and not ctx.violations:
        ctx.proof_broken(failed, "all differential and guard cases of this run")
