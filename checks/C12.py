"""C12 -- Declared operator output types match produced types (DESIGN.md section 2, C12)."""
import collections
import hashlib
import os
import re
import vf

META = {
    "claimed": True,
    "text": ("Coq theorem over a Gallina model of the OutputType rule language (src/operator.rs) and of the type propagation in "
             "src/infer_shapes.rs: for EVERY plan, declared dtypes and run, if each executed operator's declared rule predicts its "
             "produced dtypes (hypothesis rule_sound), every label computed for a graph value equals its run-time type "
             "(C12_type_propagation_sound, induction over the plan); corollary C12_cast_elimination_sound (the label CastElimination "
             "relies on). Per-operator rule soundness is SAMPLED, NOT PROVED: OpTypeRules.v is regenerated on every run from the "
             "live operators (Operator::output_types of every instance, dumped through a hook; operators deserialised by the real "
             "ONNX registry), and every instance is executed on its original dtypes, on the full product of {f32,i32,i8,u8} over its "
             "inputs (<= 3 inputs) or uniform + single-input variations (> 3), comparing declared vs produced dtype inside Coq "
             "(oracle proved exact); random chains of type-changing operators additionally go through the real infer_shapes driver "
             "and Graph::run (model propagation = implementation labels; labels = run-time types). Finding F81 (QuantizeLinear "
             "declared int8, produced uint8) repaired by a fix commit."),
    "note": ("Trusted: Coq kernel; the hook (output_types dump, run, graph inference); the sample. Exhaustive over (operator "
             "instance x dtype vector) as described, sampled over attribute values; tensor values fixed. Operators with subgraphs "
             "(If, Loop) and attention/MatMulNBits/DFT/STFT instances are not in the table."),
    "technique": ("Coq proof of graph-level type propagation from per-operator rule soundness + rule table regenerated from the "
                  "live operators (translator tie) + sampled execution of every operator instance x input dtype vector"),
}
GROUP = "typeinfer"
HGROUP = "shapeinfer"          # the harness crate is shared with C10 (one build of rten)
HARNESS_GROUPS = [HGROUP]
REQ = ("From Coq Require Import String.\nFrom RV Require Import Prelude.\n"
       "From TypeInfer Require Import TypeInferModel OpTypeRules.\n"
       "Definition agree := TypeInferModel.agree op_type_rules.\n"
       "Definition prop_ok := TypeInferModel.prop_ok op_type_rules.\n"
       "Definition show := TypeInferModel.show op_type_rules.")
THEOREMS = ["C12_type_propagation_sound", "C12_cast_elimination_sound", "C12_oracle_accept",
            "C12_oracle_reject_is_counterexample", "C12_table_wellformed", "C12_F81_quantize_rule_refuted",
            "C12_nonvacuous"]


def write_table(ctx, bindir, lines):
    """Regenerate coq/typeinfer/OpTypeRules.v from the live operators (hook dump of output_types)."""
    rc, out = vf.sh([os.path.join(bindir, "c12"), "rules"], input="\n".join(lines) + "\n", timeout=900)
    if rc != 0:
        raise vf.CheckerBroken("c12 rules failed: " + out[-500:])
    rows = [l.split("\t") for l in out.split("\n") if l.count("\t") == 3]
    txt = ["(* GENERATED on every run by checks/C12.py from the live operators of %s -- do not edit *)" % vf.REPO,
           "From Coq Require Import String List.", "From RV Require Import Prelude.", "From TypeInfer Require Import TypeInferModel.",
           "Import ListNotations.", "Open Scope string_scope.", "",
           "Definition op_type_rules : rules_table := ["]
    txt.append(";\n".join('  ("%s", (%s%%nat, %s))' % (k, n, r) for k, n, r, _ in rows))
    txt += ["].", ""]
    text = "\n".join(txt)
    fn = os.path.join(vf.COQ, GROUP, "OpTypeRules.v")
    if not os.path.exists(fn) or open(fn).read() != text:
        open(fn, "w").write(text)
    return rows


def gen_lines(ctx, bindir):
    rc, out = vf.sh([os.path.join(bindir, "c12"), "gen", str(ctx.seed), str(ctx.n(300, 1500)), ctx.tier], timeout=900)
    if rc != 0:
        raise vf.CheckerBroken("c12 gen failed: " + out[-500:])
    return [l for l in out.split("\n") if l.strip()]


def setup_hook(ctx):
    """./setup: the generated table must exist before the Coq group is built."""
    bindir = ctx.harness(HGROUP, profile="release", bins=["c12"])
    write_table(ctx, bindir, gen_lines(ctx, bindir))


def main(ctx):
    ctx.rule = ("operator instances: the C10 case generators (all operators with table entries, random attributes) plus a fixed list "
                "of type-changing instances (Cast to every dtype, ConstantOfShape/EyeLike per value dtype, comparisons, Shape, Size, "
                "ArgMax/ArgMin, NonZero, TopK, QuantizeLinear/DequantizeLinear/DynamicQuantizeLinear, sequence and random operators); "
                "for every instance: the declared rules are dumped from the live operator, and the operator is executed on the "
                "original dtypes, on the full product of {f32,i32,i8,u8} over its inputs when it has <= 3 inputs, otherwise on the "
                "four uniform vectors and all single-input variations; plus random chains of 1-4 type-changing operators run "
                "through the real graph-level inference driver and executor; a case is non-trivial when the operator executed")
    ctx.trusted += ["rten::verif::shapeinfer hook (Operator::output_types dump, Operator::run, crate::infer_shapes::infer_shapes, Graph::run)",
                    "per-operator rule soundness is SAMPLED (tested), not proved: hypothesis rule_sound of the theorem"]
    ctx.assumptions += ["rule_sound: every executed operator's declared rule predicts its produced dtype (sampled)",
                        "decl_ok: dtypes declared on graph inputs / constants / value_info are the run-time dtypes",
                        "inputs_available: an operator that produced an output had its connected inputs computed"]
    ctx.audit(GROUP)
    bindir = ctx.harness(HGROUP, profile="release", bins=["c12"])
    replay = ctx.replay_inputs()
    lines = replay if replay else gen_lines(ctx, bindir)
    rows = write_table(ctx, bindir, lines)
    ctx.pins_rec.append({"name": "op_type_rules", "file": "src/ops/* (Operator::output_types, dumped through the hook)",
                         "text": "%d operator instances of %d operators" % (len(rows), len({r[3] for r in rows}))})
    failed = ctx.prove(GROUP, "Props_C12", THEOREMS)
    ok, out = ctx.make(GROUP, ["OpTypeRules.vo"])
    if not ok:
        raise vf.CheckerBroken("rule table does not compile: " + out[-800:])
    cases = ctx.gen_exec(bindir, "c12", 0, inputs=lines)
    ran = collections.Counter()
    for c in cases:
        if c["tag"].startswith("op:"):
            ran[c["tag"].split(":")[1]] += 1
    # fold the per-dtype tags into per-operator histogram entries
    for c in cases:
        c["tag"] = re.sub(r"^(op:[^:]+):.*$", r"\1", c["tag"])
    ctx.correspond("declared vs produced dtype", GROUP, REQ, cases, show="show", shard=600,
                   fn_name="TypeInfer.OpTypeRules.op_type_rules (regenerated) / TypeInferModel.propagate")
    ops_in_table = sorted({r[3] for r in rows})
    none_rules = sorted({r[3] for r in rows if r[2] == "None"})
    ctx.extra["operator_coverage"] = {"operator_instances": len(rows), "operators": len(ops_in_table),
                                      "operators_executed_successfully": len(ran),
                                      "operators_never_executed": sorted(set(ops_in_table) - set(ran)),
                                      "operators_declaring_no_rule": none_rules}
    ctx.log("rule table: %d instances of %d operators; %d operators executed; never executed: %s"
            % (len(rows), len(ops_in_table), len(ran), " ".join(sorted(set(ops_in_table) - set(ran)))))
    if failed and not ctx.violations:
        ctx.proof_broken(failed, "all operator instances and graph chains of this run")
