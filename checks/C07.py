"""C07 -- Tensor iterators yield exactly the logical elements in order (DESIGN.md section 2, C07)."""
import os
import re
import vf

META = {
    "claimed": True,
    "text": ("Coq theorems over a Gallina model of rten-tensor/src/iterators.rs and iterators/parallel.rs (IterPos, OffsetsBase incl. "
             "merge_axes/next/step_by/next_back/truncate/split_at/fold, the contiguous Range fast path, LaneRanges/Lanes, Lane/LaneMut, "
             "InnerIter, AxisIter, AxisChunks and their SplitIterator impls): each iterator refines a deque whose content is the "
             "row-major list of the logical elements / sub-views (new_abs incl. merge_axes order preservation and the contiguous "
             "fast path, next = pop front, next_back = pop back, nth = drop k then pop, split_at k = cut after k items and panic iff "
             "k > len, len exact, fold = the whole remainder), and therefore -- main theorem, by induction over arbitrary finite "
             "history TREES over {next, next_back, nth k, fold, rev-drain, rayon, split_at k} -- observes exactly what the deque "
             "specification observes; corollaries: every logical element is yielded exactly once or left unconsumed, order is "
             "row-major from the front and reverse from the back, and over a layout accepted by the overlap check (C08) no history "
             "yields an offset twice (the *Mut iterators). Proved for all layouts and all histories, no size bound. The theorems are "
             "about the code after three fix: commits (F3 OffsetsBase::next_back; AxisIter(Mut)::split_at on a consumed iterator; "
             "AxisChunks(Mut)::split_at at index 0/len), each with a refutation witness for the code before. Known finding F22 (not "
             "fixed, pinned by the analogous RangeChunks unit test): next_back of AxisChunks over an axis that is not a multiple of "
             "chunk_size returns the last chunk_size rows instead of the last forward chunk; the chunk theorem excludes exactly "
             "(ragged axis AND next_back used). The model is tied to the code on every run by driving the real iter/iter_mut/lanes/"
             "lanes_mut/Lane/LaneMut/inner_iter(_mut, dyn and static)/axis_iter(_mut)/axis_chunks(_mut) (DynLayout and NdLayout) and "
             "their rayon into_par_iter with seeded random and small-scope exhaustive history trees over contiguous, permuted, "
             "stepped, broadcast, empty and unit-dim layouts of rank 0..5, comparing yielded values (= storage offsets) and len() "
             "after every step with the model inside Coq; the implementation's own observations are checked against the deque "
             "specification (independent index-space function) and, for *Mut, against a write-once mark in the storage."),
    "note": ("Trusted: Coq kernel; the correspondence sample (a test); exact (non-wrapping) usize arithmetic in the iterator state "
             "(every value is bounded by min_data_len / element count of an existing view, C06); rayon's bridge is modelled as "
             "'some split tree' (every split tree is covered by the theorem; which one rayon picks is run-time); the unsafe "
             "get_unchecked/transmute data accesses are outside the model (the theorems bound and de-duplicate the offsets they use). "
             "is_contiguous is the function modelled for C08. Layout ops index_axis/split_at/remove_dim that AxisIter/AxisChunks call "
             "are modelled by their offset arithmetic only (C09 owns them). RangeChunks (rten-base) has the same next_back design as "
             "F22 and is not part of this property's iterator list."),
    "technique": "Coq proof (refinement to a deque; induction over history trees, mixed-radix counter invariant) + model/implementation correspondence",
}
GROUP = "iter"
REQ = ("From RV Require Import Prelude.\nFrom Iter Require Import ModelSpec ModelIter.\nOpen Scope N_scope.")
THEOREMS = [
    "C07_logical_order", "C07_merge_axes_preserves_order", "C07_contiguous_fast_path",
    "C07_new_abs", "C07_next_refines", "C07_next_back_refines", "C07_nth_refines", "C07_len_exact",
    "C07_split_refines", "C07_fold_refines", "C07_history_refines_deque",
    "C07_iter_history", "C07_lanes_history", "C07_lane_history", "C07_inner_history",
    "C07_axis_iter_history", "C07_chunks_history", "C07_model_meets_spec", "C07_agree_implies_spec",
    "C07_spec_exactly_once", "C07_drained_exactly_once", "C07_front_order", "C07_back_order",
    "C07_iter_exactly_once", "C07_itermut_at_most_once",
    "C07_next_back_refuted", "C07_axis_iter_split_refuted", "C07_axis_chunks_split_refuted",
    "C07_chunks_ragged_back_refuted", "C07_nonvacuous_f3_fixed", "C07_nonvacuous_split",
]
KNOWN_RAGGED = "F22"


def ragged_back(case):
    """input line of a chunk iterator over an axis that is not a multiple of the chunk size, with a
    history that consumes from the back -- exactly the complement of valid_case for KChunks."""
    f = case["input"].split(";")
    if len(f) != 6 or f[0] not in ("chunks", "chunksmut", "rchunks"):
        return False
    shape = [int(x) for x in f[2].split(",") if x.strip()]
    ab = [int(x) for x in f[4].split(",") if x.strip()]
    if len(ab) < 2 or ab[0] >= len(shape) or ab[1] == 0:
        return False
    return shape[ab[0]] % ab[1] != 0 and bool(re.search(r"[br]", f[5]))


def exec_cases(ctx, bindir, n):
    """gen + exec.  Normally one harness process answers every input.  If that process dies
    (abort / segfault inside the library, which catch_unwind cannot turn into an outcome) the
    inputs are re-run in chunks, the inputs that kill the process are found by bisection and
    reported (at most 3), and the chunks that still cannot be run are dropped."""
    try:
        return ctx.gen_exec(bindir, "c07", n, inputs=ctx.replay_inputs())
    except vf.CheckerBroken as ex:
        if "exec" not in str(ex):
            raise
    path = os.path.join(bindir, "c07")
    inputs = ctx.replay_inputs()
    if inputs is None:
        rc, out = vf.sh([path, "gen", str(ctx.seed), str(n), ctx.tier], timeout=600)
        inputs = [l for l in out.split("\n") if l.strip()]
        corpus = os.path.join(vf.ROOT, "corpus", ctx.prop + ".txt")
        if os.path.exists(corpus):
            inputs = [l.rstrip("\n") for l in open(corpus) if l.strip() and not l.startswith("#")] + inputs

    def run(lines):
        rc, out = vf.sh([path, "exec"], input="\n".join(lines) + "\n", timeout=900)
        if rc != 0:
            return None
        res = []
        for l in out.split("\n"):
            parts = l.split("\t")
            if len(parts) == 3:
                res.append({"tag": parts[0], "input": parts[1], "term": parts[2]})
        return res if len(res) == len(lines) else None

    cases, reported, dropped = [], 0, 0
    for base in range(0, len(inputs), 500):
        chunk = inputs[base:base + 500]
        for _ in range(4):
            res = run(chunk)
            if res is not None:
                cases += res
                break
            if reported >= 3:
                dropped += len(chunk)
                break
            lo, hi = 0, len(chunk)          # invariant: chunk[lo:hi] kills the process
            while hi - lo > 1:
                mid = (lo + hi) // 2
                if run(chunk[lo:mid]) is None:
                    hi = mid
                else:
                    lo = mid
            ctx.violation({"kind": "crash", "check": "iterators", "input": chunk[lo],
                           "explain": "the harness process died (abort / segfault) while driving the real iterator on this "
                                      "input: a safe iterator API misbehaved beyond a catchable panic"})
            reported += 1
            chunk = chunk[:lo] + chunk[lo + 1:]
        else:
            dropped += len(chunk)
    if dropped:
        ctx.notes.append("%d inputs could not be run because the harness process kept dying" % dropped)
    return cases


def main(ctx):
    ctx.rule = ("small-scope sweep: every op sequence of length <= 2 (quick) / 3 (thorough) over {next, next_back, nth 0/1/2} followed by each "
                "of 8 terminals (drop, fold, rev-drain, rayon, 4 split trees) on 7 fixed layouts x {iter, iter_mut, lanes, axis_iter_mut, "
                "axis_chunks, inner_iter}; plus seeded random cases: kind from 13 iterator kinds (mutable and immutable, "
                "DynLayout and NdLayout, plus rten-base RangeChunks), layout of rank 0..5 derived from a contiguous one by stepped slices / permutation / unit "
                "axes with arbitrary strides / broadcast axes (immutable only) / empty axes, history tree of up to 9 ops with splits "
                "nested to depth 3, nth beyond the end, split_at 0 / len / len+1, usize::MAX; non-trivial = iterator of >= 2 items "
                "and a non-empty history; distinct = distinct input line")
    ctx.trusted += [
        "modelled, not verified: rayon's bridge() (any split tree), std Range<usize> iterator methods, Iterator::nth/fold defaults",
        "not modelled: the unsafe data accesses (get_unchecked, transmute of lifetimes) -- the theorems are about the offsets they receive",
        "layout operations index_axis / split_at / remove_dim / is_contiguous are modelled by their offset arithmetic (owned by C08/C09)",
    ]
    ctx.assumptions += ["usize arithmetic in iterator state does not wrap (values bounded by min_data_len of an existing view; C06)"]
    ctx.audit(GROUP, "tensor")
    failed = ctx.prove(GROUP, "Props_C07", THEOREMS)
    bindir = ctx.harness(GROUP, profile="release", bins=["c07"], hooks=False)
    cases = exec_cases(ctx, bindir, ctx.n(2500, 25000))

    # Known finding F22: only cases of the excluded class on which the implementation does what
    # the model says it does may be attributed to it; anything else stays a violation.
    rb = [c for c in cases if ragged_back(c)]
    attributable = set()
    if rb:
        dis, _pf, err = ctx.coq_eval_cases(GROUP, REQ, [c["term"] for c in rb], tag="ragged")
        if err:
            raise vf.CheckerBroken("model evaluation failed for ragged chunk cases: " + err)
        bad = set(dis)
        attributable = {c["input"] for i, c in enumerate(rb) if i not in bad}

    def classify(c):
        return KNOWN_RAGGED if c["input"] in attributable else None

    ctx.correspond("iterators", GROUP, REQ, cases, classify=classify, show="show",
                   fn_name="Iter.ModelIter.model_obs (OffsetsBase/Offsets/Lanes/Lane/InnerIter/AxisIter/AxisChunks)")
    if failed and not ctx.violations:
        ctx.proof_broken(failed, "all correspondence cases of this run")
