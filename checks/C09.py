"""C09 -- Layout transformations match a reference array model (DESIGN.md section 2, C09)."""
import vf

META = {
    "claimed": True,
    "text": ("Coq theorems over a Gallina model (coq/layoutops/LayoutOps.v, ModelC09.v) of rten-tensor's layout-changing functions on "
             "(offset, shape, strides): for an ARBITRARY source view, each of slice (ranges, steps, negative indices), slice_axis, "
             "index_axis, permuted/transposed/move_axis, broadcast, squeezed, insert_axis, remove_axis, merge_axes, split, "
             "reshaped_for_view, slice_copy (negative steps, clamped bounds), reshaped, to_contiguous, clip_dim and append returns a "
             "result whose denotation (storage elements at its row-major offsets) equals the NumPy-style reference operation "
             "(coq/layoutops/ArrayModel.v: shape + row-major element list, no strides) applied to the source's denotation, and reports "
             "an error/panic only where the reference is undefined or a documented contract applies (views: positive steps and "
             "in-bounds ranges; view-reshape: contiguity; append: capacity); SliceRange::clamp/resolve/index_range and the IndexRange "
             "iterator are proved to select exactly Python's slice indices, negative steps included; chains compose "
             "(C09_chain_matches_reference) and element counts equal the reference's (C09_never_lossy). The model is tied to the code "
             "by running random operation chains (length <= 6, rank <= 4, contiguous/permuted/stepped/broadcast/overlapping sources, "
             "out-of-range, zero-step and i64-extreme slice values) and an exhaustive SliceRange small scope through the public API "
             "and comparing shape, strides and elements with the model inside Coq; independently each implementation result is "
             "compared with the reference applied to the implementation's previous tensor, which yields concrete replay inputs. "
             "to_vec, to_contiguous, map, copy_from, copy_into_slice, to_tensor, get() and the static-rank (NdLayout) code paths are "
             "exercised on the same views and compared with the reference, but not proved (copy.rs kernels: correspondence only). "
             "Six defects found this way (F50-F55, incl. uninitialised memory returned by slice_copy) are repaired in /repo."),
    "note": ("Trusted: Coq kernel; the correspondence sample (a test, not a proof); iter() as the observer of element order "
             "(C07's subject). Exact (non-wrapping) usize arithmetic is assumed in the theorems (agree runs the wrapping model; the two "
             "coincide unless a size/stride product reaches 2^64, proved for slice); the error direction of slicing assumes sizes <= "
             "isize::MAX. copy.rs kernels and NdLayout variants are correspondence-only."),
    "technique": "Coq proof (denotation of strided views against an index-function array model) + model/implementation correspondence",
}
GROUP = "layoutops"
REQ = ("From RV Require Import Prelude.\nFrom Tensor Require Import Overlap.\n"
       "From LayoutOps Require Import ArrayModel LayoutOps ModelC09.\nOpen Scope N_scope.")
THEOREMS = ["C09_clamp_resolves", "C09_index_range_is_python_slice", "C09_index_range_no_panic",
            "C09_slice_denotes", "C09_slice_ok_defined", "C09_slice_error", "C09_slice_release_mode",
            "C09_slice_copy_is_numpy", "C09_slice_copy_error", "C09_clip_dim_denotes",
            "C09_append_denotes", "C09_append_error", "C09_append_permuted_denotes",
            "C09_index_axis_denotes", "C09_index_axis_error", "C09_slice_axis_denotes", "C09_slice_axis_error",
            "C09_split_denotes", "C09_split_error",
            "C09_permuted_denotes", "C09_permuted_error", "C09_transposed_denotes",
            "C09_move_axis_denotes", "C09_move_axis_error",
            "C09_broadcast_denotes", "C09_broadcast_error",
            "C09_squeezed_denotes", "C09_insert_axis_denotes", "C09_insert_axis_error",
            "C09_remove_axis_denotes", "C09_remove_axis_error", "C09_merge_axes_preserves_order",
            "C09_reshaped_for_view_denotes", "C09_reshaped_for_view_error",
            "C09_op_correct", "C09_op_error_means_undefined", "C09_chain_matches_reference",
            "C09_never_lossy", "C09_nonvacuous"]


def classify(case):
    return None


def main(ctx):
    ctx.rule = ("seeded random chains of <= 6 operations (19 kinds) on views of an arange storage, rank <= 4, sizes <= 5: sources are "
                "contiguous, offset, stepped, permuted, broadcast (stride 0) or arbitrarily strided; one chain in four comes from the "
                "malformed/extreme stream (out-of-range axes/indices/ranges, zero and i64-extreme steps, invalid permutations, bad "
                "broadcast/reshape targets); plus the exhaustive SliceRange scope size<=5 x start,end in -7..7 (end also absent) x "
                "step in -3..3\\{0} and i64-extreme combinations. Non-trivial = some observed tensor in the chain is non-empty; "
                "distinct = distinct input lines")
    ctx.trusted += ["observer: TensorView::iter() (element order; property C07) and shape()/strides()",
                    "modelled, not verified: SmallVec insert/remove, Iterator::max_by_key (last maximum), isize::clamp, usize::div_ceil",
                    "correspondence only (not proved): the loop structure of the copy.rs kernels (to_vec, to_contiguous, map, copy_from, "
                    "copy_into_slice, copy_range_into_slice, copy_into), NdLayout code paths, Vec::with_capacity's exact capacity"]
    ctx.assumptions += ["usize arithmetic on strides/offsets does not overflow (C06's obligation), except stride*step in slice_layout "
                        "which the model evaluates mod 2^64"]
    ctx.audit(GROUP, "tensor")
    failed = ctx.prove(GROUP, "Props_C09", THEOREMS)
    bindir = ctx.harness(GROUP, profile="release", bins=["c09"])
    replay = ctx.replay_inputs()
    sr_replay = [l for l in (replay or []) if l.count("|") == 3]
    ch_replay = [l for l in (replay or []) if l.count("|") != 3]
    if replay is None or sr_replay:
        cases = ctx.gen_exec(bindir, "c09", 0, extra_gen=("sr",), exec_args=("exec-sr",), inputs=sr_replay or None)
        ctx.correspond("SliceRange", GROUP, REQ, cases, classify=classify, show="show", shard=1000, fn_name="LayoutOps.{sr_clamp,sr_resolve,sr_steps,sr_index_range,slice,slice_copy}")
    if replay is None or ch_replay:
        cases = ctx.gen_exec(bindir, "c09", ctx.n(2000, 16000), inputs=ch_replay or None)
        ctx.correspond("layout-chains", GROUP, REQ, cases, classify=classify, show="show", shard=250,
                       fn_name="LayoutOps.apply_op (slice, permuted, broadcast, merge_axes, split, ...)")
    if failed and not ctx.violations:
        ctx.proof_broken(failed, "all correspondence cases of this run")
