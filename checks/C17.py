"""C17 -- Quantized integer kernels are exact (DESIGN.md section 2, C17)."""
import os

import vf

META = {
    "claimed": True,
    "text": ("Coq theorems over Z about a Gallina model of the u8 x i8 -> i32 kernels (rten-gemm kernels/{generic,x86_64,"
             "simd_generic}.rs, packing/int8.rs): the kernels' correction formula dot(a,b) - za*sum(b) - zb*sum(a) + k*za*zb "
             "equals sum (a-za)(b-zb) for all vectors and zero points, also with both operands zero-padded to the K tile; "
             "vpmaddubsw's i16-saturating pair sum equals the exact dot product whenever the LHS is u7 or the RHS is i7 (the "
             "documented reduced range); the exact result fits i32 for every depth <= 33025 and wrapping i32 arithmetic is a ring "
             "homomorphism, so one output element of ANY kernel is exact if the kernel does not saturate, or on every kernel for "
             "reduced-range inputs; the blocked driver is the C16 driver instantiated with the zero-point-shifted operands; "
             "DynamicQuantizeLinear followed by dequantisation is within half a step of the input over Q with round-half-even "
             "(_partial: f32 rounding of scale / zero point / x/scale not modelled). Tie: every int8 kernel usable on this machine "
             "(generic, AVX2 = saturating, AVX-512 VNNI; hook int8_executor) is run through GemmExecutor<u8,i8,i32>::gemm on all "
             "combinations of extreme operand palettes {0,1,127,128,255} x {-128,-1,0,1,127} x zero-point modes, full-range and "
             "reduced-range random operands, shapes around mr/nr/K-tile/kc boundaries, 5 storage layouts, prepacked A/B, the "
             "vector-matrix paths, beta in {0,1}; outputs are compared exactly inside Coq; may_saturate() read from the executor "
             "decides which theorem applies. Per-ISA instruction semantics are modelled, not proved; rten::ops::dynamic_quantize_linear::<u8> is run on "
             "10 input distributions (incl. huge, tiny, denormal, zero-range) and its own outputs are checked in exact integer "
             "arithmetic against |dequantize(y) - x| <= scale; MatMulInteger / ConvInteger are not run by this check."),
    "note": ("Trusted: Coq kernel; the correspondence sample; vpmaddubsw/vpmaddwd/vpdpbusd semantics (hand model: sat16 pair sums, "
             "VNNI exact); the AVX-512 non-VNNI path cannot be selected on this machine. Findings fixed on branch verif-gemm: F51 "
             "(int8 packing used the first panel's zero points for every full panel), F52 (x86 int8 kernels ignored the zero points "
             "passed with prepacked operands). By reading only (not reachable on this machine, whose default int8 kernel is VNNI): "
             "shift_cast_gemm_lhs_to_u8 casts a negative i8 zero point with `as u8` after a shift derived from the tensor minimum "
             "only."),
    "technique": "Coq proof (list induction, nia on value ranges, modular arithmetic, lra over Q) + exact model/implementation "
                 "correspondence on extreme-value palettes",
}
GROUP = "gemm"
REQ = "From RV Require Import Prelude.\nFrom Gemm Require Import GemmModel Int8 ModelC17.\nOpen Scope N_scope."
REQDQ = "From RV Require Import Prelude.\nFrom Gemm Require Import ModelC17dq.\nOpen Scope N_scope."
THEOREMS = ["C17_zero_point_algebra", "C17_padded_zero_point_algebra", "C17_no_saturation_reduced_range",
            "C17_i32_no_overflow", "C17_wrapping_is_harmless", "C17_kernel_element_exact", "C17_integer_gemm_driver",
            "C17_saturation_witness", "C17_dynamic_quantize_within_step_partial", "C17_F51_old_indexing_refuted",
            "C17_nonvacuous"]


def main(ctx):
    ctx.rule = ("per int8 kernel available on this machine: all (thorough) / half (quick) of the 4x5x6 combinations of LHS palette "
                "{full, extremes 0/1/127/128/255, u7, all-255} x RHS palette {full, extremes -128/-1/0/1/127, i7, all-127, all--128} x "
                "zero-point mode {none, scalar, per-row/column, extremes, mixed} on a (2mr+1) x (nr+3) x 13 product, plus seeded random "
                "shapes m in {0,1,mr-1..3mr+2}, n likewise, k in {0..9, 31..33, 63..65, 70, 1023..1025, 1100}, gemv paths (unit "
                "column stride, unit row stride, both non-unit), prepacked A/B, beta in {0,1} with the output pre-filled; "
                "non-trivial = output non-empty")
    ctx.trusted += ["vpmaddubsw / vpmaddwd / vpdpbusd instruction semantics: hand model (sat16 pair sums; VNNI exact)",
                    "MatMulInteger / ConvInteger operators are not executed here (only the GEMM they call, and rten::ops::dynamic_quantize_linear)"]
    ctx.audit(GROUP)
    failed = ctx.prove(GROUP, "Props_C17", THEOREMS)
    bindir = ctx.harness(GROUP, profile="release", bins=["c17"])
    rep = ctx.replay_inputs()
    rep_i = [l for l in rep if not l.startswith("D ")] if rep else None
    rep_d = [l for l in rep if l.startswith("D ")] if rep else None
    cases = ctx.gen_exec(bindir, "c17", int(os.environ.get('VERIF_N', ctx.n(60, 200))), inputs=rep_i) if (not rep or rep_i) else []
    shard = max(4, -(-max(len(cases), 1) // vf.NCPU))
    # Alarm on the property only: exactness wherever the statement demands it.
    if cases:
      ctx.correspond("int8-gemm-exact", GROUP, REQ, cases, show="show", agree="always", prop_ok="prop_ok", shard=shard,
                   fn_name="Gemm.Int8.dot_zp vs GemmExecutor<u8,i8,i32> output")
    # DynamicQuantizeLinear -> dequantize within one step: the operator's own outputs (bit patterns of
    # x and scale, zero point, quantized values) are checked in exact integer arithmetic.
    if (not rep or rep_d) and (os.environ.get('VERIF_FAST') != '1' or os.environ.get('VERIF_DQ') == '1'):
        bindir2 = ctx.harness(GROUP, profile="release", features="ops", bins=["c17dq"])
        dq = ctx.gen_exec(bindir2, "c17dq", ctx.n(60, 150), inputs=rep_d)
        ctx.correspond("dynamic-quantize-within-one-step", GROUP, REQDQ, dq, show="show", agree="always", prop_ok="prop_ok",
                       shard=max(4, -(-len(dq) // vf.NCPU)), fn_name="rten::ops::dynamic_quantize_linear::<u8> outputs")
    if os.environ.get('VERIF_FAST') == '1':
        if failed and not ctx.violations:
            ctx.proof_broken(failed, 'all correspondence cases of this run')
        return
    # Informational: today's kernels including the saturating pair sums of may_saturate kernels.
    dis, _, err = ctx.coq_eval_cases(GROUP, REQ, [c["term"] for c in cases], "agree", "always", shard, tag="sat")
    ctx.extra["kernel_model_disagreements"] = (len(dis) if not err else "evaluation error: " + str(err)[:200])
    ctx.extra["saturating_kernel_full_range_cases"] = sum(1 for c in cases if "-sat" in c["tag"] and c["tag"].endswith(("full", "full-zp", "full-zpvec")))
    if dis:
        ctx.log("note: %d case(s) deviate from the kernel model (saturating pair sums); not a property violation" % len(dis))
    if failed and not ctx.violations:
        ctx.proof_broken(failed, "all correspondence cases of this run")
