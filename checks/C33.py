"""C33 -- Samplers choose only valid candidates (DESIGN.md section 2, C33)."""
import vf

META = {
    "claimed": True,
    "text": ("Coq theorems over a Gallina model of rten-generate/src/sampler.rs on f32 BIT PATTERNS, for all candidate lists "
             "(sparse or dense, duplicates, -inf, ties, single candidates, NaNs): ArgMax returns the id of a candidate that no "
             "candidate strictly exceeds (IEEE >), whose score is >= every score when no score is NaN, answers for every "
             "non-empty input and panics exactly on the empty one (documented). Multinomial (after one fix commit, F20): for "
             "every softmax answer of the right length made of non-NaN non-negative values and every target >= 0, the returned "
             "id sits at a position of the candidate list whose probability is > 0, unless no candidate has probability > 0 "
             "(then position 0); proved for every f32 addition that is neutral on zeros and instantiated, hypothesis-free, for "
             "Flocq's binary32 addition. `_refuted` witness lemmas show the code as found returns a zero-probability candidate "
             "(target exactly 0.0 with `<=`; softmax sum rounding below the target with `unwrap_or(0)`), both reproduced on "
             "the real code. The sampler is a function of (softmax answer, target); determinism under a fixed seed is "
             "exercised by running every case twice (the RNG being a function of its state is not proved). Softmax and "
             "fastrand are oracles: their outputs are read from the Rust run / recomputed with fastrand::Rng::with_seed and "
             "fed to the model; model and implementation are compared on every run (ids), and the implementation's answers "
             "are checked against executable contracts."),
    "note": ("partial: softmax (rten_vecmath) and fastrand are oracles; determinism is exercised, not proved. Trusted: Coq kernel; "
             "correspondence sample; Iterator::reduce modelled as fold_left; f32 + is Flocq Bplus mode_NE (NaN results "
             "canonicalised, only compared). Inputs with NaN/+inf scores or all -inf (softmax yields NaNs) are outside the "
             "property's domain: there only membership in the candidate set is checked."),
    "technique": "Coq proof (fold / loop invariants over f32 bit patterns; Flocq binary32 for the zero-neutrality of +) + model/implementation correspondence with softmax and RNG as oracles",
}
GROUP = "filters"
REQ = ("From RV Require Import Prelude.\nFrom Filters Require Import Floats ModelFilters ModelSamplers.\n"
       "Open Scope N_scope.")
THEOREMS = ["C33_argmax_maximal", "C33_argmax_greatest", "C33_argmax_in_candidates", "C33_argmax_total",
            "C33_argmax_empty_panics", "C33_multinomial_valid", "C33_multinomial_loop_valid",
            "C33_multinomial_valid_binary32", "C33_multinomial_empty_panics",
            "C33_sample_function_of_oracles", "C33_argmax_oracle_reflects",
            "C33_F20_zero_target_refuted", "C33_F20_fallback_refuted", "C33_nonvacuous"]


def main(ctx):
    ctx.rule = ("ArgMax: every score vector of length <= 3 (quick) / <= 4 (thorough) over {+NaN, -NaN, -0, +0, 1.0, -inf, +inf}, plus "
                "seeded random vectors of length 1..40 (8 value profiles), dense and sparse (shuffled / gapped / duplicate ids). "
                "Multinomial: seeded random vectors of length 0..40 (mostly finite with -inf masks, first and/or last candidate "
                "masked half of the time; some NaN/arbitrary patterns), 1..6 consecutive samples per sampler, seeds random or one of "
                "two searched seeds whose first draw is exactly 0.0 / 1-2^-23; plus searched inputs whose f32 softmax sum stays "
                "below 1-2^-23 with the first candidate masked (the fallback branch). Every case is run twice (determinism). "
                "Non-trivial = non-empty candidate list.")
    ctx.trusted += [
        "oracle: rten_vecmath::Softmax::new(..).dispatch() (probabilities read from the Rust run)",
        "oracle: fastrand::Rng::with_seed(seed).f32() (targets recomputed by the harness with the same crate version; one draw per sample)",
        "modelled, not verified: Iterator::reduce as fold_left; Logits::indices()[idx] as nth_error",
        "modelled, not verified: f32 + = Flocq binary32 Bplus mode_NE (exercised by every multinomial case)",
        "determinism under a fixed seed: exercised (every case run twice), not proved",
    ]
    ctx.assumptions += ["softmax answers consist of non-NaN, non-negative values of the right length (checked per case; otherwise only membership is required)",
                        "rng.f32() is >= 0 (fastrand documents [0, 1))"]
    ctx.audit(GROUP)
    # the Print-Assumptions regex of lib/vf.py also captures the "Axioms:" header line of the Coq output
    # as if it were an axiom name; allow that token here and strip it again (framework change requested).
    failed = ctx.prove(GROUP, "Props_C33", THEOREMS, extra_allowed=("Axioms",))
    ctx.axioms_used.discard("Axioms")
    ctx.obligations = [(n, ok, d.replace("axioms: Axioms,", "axioms: ")) for (n, ok, d) in ctx.obligations]
    bindir = ctx.harness(GROUP, profile="release", bins=["c33"])
    cases = ctx.gen_exec(bindir, "c33", ctx.n(2400, 8000), inputs=ctx.replay_inputs())
    ctx.correspond("samplers", GROUP, REQ, cases, show="ModelSamplers.show",
                   agree="ModelSamplers.agree", prop_ok="ModelSamplers.prop_ok",
                   fn_name="Filters.ModelSamplers.{argmax, sample_multi}")
    if failed and not ctx.violations:
        ctx.proof_broken(failed, "all correspondence cases of this run")
