"""C33 -- Samplers choose only valid candidates (DESIGN.md section 2, C33)."""
import vf

META = {
    "claimed": True,
    "text": "",
    "note": "",
    "technique": "Coq proof (fold / loop invariants over f32 bit patterns) + model/implementation correspondence with softmax and RNG as oracles",
}
GROUP = "filters"
REQ = ("From RV Require Import Prelude.\nFrom Filters Require Import Floats ModelFilters ModelSamplers.\n"
       "Open Scope N_scope.")
THEOREMS = []


def main(ctx):
    ctx.audit(GROUP)
    failed = ctx.prove(GROUP, "Props_C33", THEOREMS) if THEOREMS else []
    bindir = ctx.harness(GROUP, profile="release", bins=["c33"])
    cases = ctx.gen_exec(bindir, "c33", ctx.n(3000, 40000), inputs=ctx.replay_inputs())
    ctx.correspond("samplers", GROUP, REQ, cases, show="ModelSamplers.show",
                   agree="ModelSamplers.agree", prop_ok="ModelSamplers.prop_ok",
                   fn_name="Filters.ModelSamplers.{argmax, sample_multi}")
    if failed and not ctx.violations:
        ctx.proof_broken(failed, "all correspondence cases of this run")
