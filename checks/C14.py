"""C14 -- Operator results do not depend on input memory layout (DESIGN.md section 2, C14)."""
import importlib.util
import os
import vf

_spec = importlib.util.spec_from_file_location("c13_shared", os.path.join(os.path.dirname(os.path.abspath(__file__)), "C13.py"))
_c13 = importlib.util.module_from_spec(_spec)
_spec.loader.exec_module(_c13)

META = {
    "claimed": True,
    "text": ("partial(kernel fast paths sampled). PROVED (Coq, closed under the global context): in the model an operator is a function of the "
             "logical tensor a view denotes, so two representations of one logical tensor give one result (by construction); which tensor a "
             "permuted / stepped-sliced / broadcast view denotes (theorems of the layout group C09, re-stated); and for the one kernel family whose "
             "layout-specific fast path is modelled (elementwise binary operators of src/ops/binary_elementwise.rs) that the contiguous "
             "cycles/repeats fast path and the strided indexed path give the same result for every kernel, shape and contiguity flag. "
             "EXERCISED on every run, not proved: every other operator's layout-specific code. Differential on the real code for every "
             "operator the ONNX registry registers that the harness can construct (list re-read from the source; unary, binary, variadic, "
             "reductions, MatMul/Gemm/Einsum/MatMulInteger, Conv/ConvTranspose/ConvInteger, pooling, gather/scatter, Concat/Split/Slice/Pad/Tile/"
             "Expand/Reshape/Transpose, Softmax/LayerNorm/RMSNorm/BatchNorm/InstanceNorm, Resize, quantization, sequence ops, Attention, "
             "optimizer-only fused ops and TransformInputs wrappers): the run on contiguous inputs vs runs with ALL inputs as permuted views, "
             "stepped slices of larger buffers, offset slices, broadcast (stride-0) views, and mixed assignments, of the same logical "
             "integer-valued tensors; TransformInputs(op) on pre-permuted inputs vs op on the original inputs; shape, dtype and element BITS "
             "compared inside Coq."),
    "note": ("Trusted: Coq kernel; the harness (each alternative representation is checked element-by-element against the logical tensor "
             "through rten-tensor's iterators before use); the differential is a test, as strong as its generators (histogram in evidence). "
             "Not constructed: GRU, LSTM, If, Loop, MatMulNBits, feature-gated fft/random operators; FINDING F60 (fixed): Conv read the padding "
             "region of a zero-stride (broadcast) input as data. KNOWN FINDING F61: attention-family outputs can differ by <= 2 ulp between "
             "contiguous and strided K/V (GEMM summation order); classified inside Coq (close_ok), larger/structural differences stay VIOLATIONs; "
             "operators without a dedicated generator get a generic unary/binary attempt and count only when their reference run succeeds."),
    "technique": "Coq proof (denotation of views; binary fast path = indexed path) + multi-representation differential on the implementation evaluated in Coq",
}
GROUP = "ops"
REQ = _c13.REQ
THEOREMS = ["C14_function_of_denotation", "C14_permuted_view_denotes", "C14_sliced_view_denotes", "C14_broadcast_view_denotes",
            "C14_contiguous_denotes_itself", "C14_binary_op_layout_independent", "C14_fast_broadcast_sound", "C14_oracle_reflects",
            "C14_nonvacuous", "C14_attention_rounding_witness"]


def main(ctx):
    ctx.rule = ("for every constructible operator: seeded random valid inputs (rank<=4, dims 0..5, small integer values, f32/i32/i8/u8), "
                "reference run on contiguous tensors vs runs on permuted / stepped / offset / broadcast / mixed representations of the same "
                "logical inputs; non-trivial = the reference run succeeded and at least one alternative representation was applicable")
    ctx.trusted += ["the hook src/verif/ops.rs builds operators with the ONNX registry's reader and calls Operator::run with a BufferPool",
                    "rten-tensor view construction (slice/permuted/broadcast) and iterators are used to build and self-check the alternative representations (C07, C09)",
                    "operator kernels are sampled by the differential, not modelled (except the binary elementwise decision logic)"]
    ctx.audit(GROUP, "layoutops", "tensor")
    failed = ctx.prove(GROUP, "Props_C14", THEOREMS)
    bindir = ctx.harness(GROUP, profile="release", bins=["c14"])
    keys = _c13.registry_keys()
    rows = _c13.enumerate_ops(ctx, bindir, "c14", keys)
    built = sorted(r[0] for r in rows if r[1] == "ok")
    unbuilt = sorted(r[0] for r in rows if r[1] != "ok")
    ctx.extra["registered_operators"] = len(keys)
    ctx.extra["operators_constructed"] = len(built)
    ctx.extra["operators_not_constructed"] = unbuilt
    n = int(os.environ.get("VERIF_OPS_N", "0")) or ctx.n(600, 8000)
    cases = ctx.gen_exec(bindir, "c14", n, extra_gen=[",".join(keys)], inputs=ctx.replay_inputs())
    covered = set(c["tag"] for c in cases if not c["tag"].startswith("trivial"))
    ctx.extra["operators_with_successful_case"] = len(covered)
    ctx.extra["operators_without_successful_case"] = sorted(k for k in built if k not in covered)
    ctx.correspond("layout-independence", GROUP, REQ, cases, classify=_c13.attention_classifier(ctx, GROUP, REQ, cases), agree="layout_ok", prop_ok="layout_ok", show="show", shard=120,
                   fn_name="Operator::run on contiguous vs permuted/stepped/offset/broadcast representations (differential)")
    if failed and not ctx.violations:
        ctx.proof_broken(failed, "all correspondence cases of this run")
