"""C35 -- Polygon algorithms return geometrically valid results (DESIGN.md section 2, C35)."""
import vf

META = {
    "claimed": True,
    "text": ("Proved for ALL inputs over a Gallina model of rten-imageproc/src/poly_algos.rs: Douglas-Peucker simplification "
             "(simplify_polyline / simplify_polygon) with the point type, the distance function and the comparison ABSTRACT (any "
             "total transitive order; f32 <= without NaN is one): the recursion terminates, the call panics exactly when epsilon < 0, "
             "the result is a subsequence of the input that keeps the first (polyline: and last) point, and every removed point is "
             "within epsilon (in the abstract distance) of a segment between two consecutive kept points of the (closed) outline. "
             "convex_hull (Graham scan with the orientation test over Z, for ANY sort keys): the hull uses only input points and every "
             "three consecutive hull vertices make a strict left turn. NOT proved (float geometry): global convexity of the hull, "
             "containment of all input points, and everything about min_area_rect -- these are only exercised: the implementation's "
             "output on integer-coordinate point sets is re-checked EXACTLY (integer orientation tests for convexity/containment, "
             "exact squared distances with tolerance 1/64 for simplification, exact dyadic rationals with tolerance 1/512 for the "
             "rectangle). That exact re-check found a genuine containment defect of convex_hull on collinear points (F56), repaired "
             "before the positive claims."),
    "note": ("Partial. Trusted: Coq kernel; the correspondence sample (a test, not a proof); the harness recomputes the hull's f32 sort "
             "keys and the f32 segment distances with the same public Vec2/PointF/Line methods the implementation uses (replayed into "
             "the model); f32 cross products are exact on the coordinates used: integers with differences |d| <= 16, scaled by "
             "2^k (k from -18 to 14) and translated by dyadic offsets, so tiny, large and far-from-origin point sets are covered exactly. NaN/infinite coordinates, epsilon = NaN and coordinates whose differences are not small dyadics are outside what is checked. "
             "Defects repaired first: F55 (simplify_polygon panics on empty input), F56 (convex_hull loses the furthest of several "
             "collinear points; min_area_rect inherits it)."),
    "technique": "Coq proof (induction over fuel with a shape invariant; stack invariant of the scan) + model/implementation correspondence with exact-arithmetic oracle",
}
GROUP = "imageproc"
REQ = "From RV Require Import Prelude.\nFrom ImageProc Require Import Poly.\nOpen Scope Z_scope."
THEOREMS = ["C35_simplify_polyline", "C35_simplify_polygon", "C35_hull_subset_of_input", "C35_hull_chain_left_turns",
            "C35_hull_oracle_sound", "C35_simplify_oracle_sound", "C35_nonvacuous"]


def correspond_once(ctx, name, group, req, cases, agree, prop_ok, show, shard, fn_name):
    """C23 pattern with ONE model evaluation: the alarm is `prop_ok` on the implementation's outcome
    (ctx.correspond with agree = prop_ok), the deterministic-model comparison `agree` is evaluated
    in the same Coq pass and only reported as a number."""
    terms = [c["term"] for c in cases]
    dis, pf, err = ctx.coq_eval_cases(group, req, terms, agree, prop_ok, shard, tag=name[:8].replace("-", ""))
    if err:
        raise vf.CheckerBroken("model evaluation failed for %s: %s" % (name, err))
    orig = ctx.coq_eval_cases
    ctx.coq_eval_cases = lambda *a, **k: (list(pf), list(pf), None)   # results of the pass above
    try:
        ctx.correspond(name, group, req, cases, agree=prop_ok, prop_ok=prop_ok, show=show, shard=shard, fn_name=fn_name)
    finally:
        ctx.coq_eval_cases = orig
    return len([i for i in dis if i not in set(pf)])


def main(ctx):
    ctx.rule = ("integer-coordinate point sets: all ordered triples (quick) / quadruples (thorough) of points of the 3x3 lattice for "
                "the hull; seeded random sets of 0..12 points with coordinates in -8..8 (uniform, coarse lattices, collinear runs "
                "through a base point, duplicates, rays from the bottom-left point), used for convex_hull, simplify_polygon / "
                "simplify_polyline with epsilon = k/4 (k in 0..40) and min_area_rect; SCALED families: half of the random sets and half of "
                "the lattice sets are multiplied by 2^k, k in {-18,-14,-10,-4,8,14} (extents from 4e-6 to 1e5) and translated by a dyadic "
                "offset (hull: up to 2^20 units; simplify/rect: up to 64 units), epsilon scaled alike -- all exactly representable, the "
                "exact oracle runs on the integer pre-images; corpus of the F55/F56/C35-B inputs first. "
                "non-trivial = non-empty point set")
    ctx.trusted += ["harness recomputes the f32 sort keys of convex_hull and the f32 Line::distance values with the implementation's own "
                    "public methods; they are replayed into the model as order-preserving integers",
                    "min_area_rect has no model: oracle (exact rational containment with tolerance 1/512) only"]
    ctx.assumptions += ["coordinates are (integer + integer offset) * 2^k with integer differences |d| <= 16: f32 differences, products and "
                        "cross products are exact at every scale used; the oracle is evaluated on the integer pre-images (orientation and "
                        "distance ratios are invariant under scaling by 2^k and translation)",
                        "no NaN/infinite coordinates, epsilon >= 0 finite (epsilon < 0 is a documented assert)"]
    ctx.audit(GROUP)
    failed = ctx.prove(GROUP, "Props_C35", THEOREMS, timeout=3000)
    bindir = ctx.harness(GROUP, profile="release", bins=["c35"], hooks=False)
    cases = ctx.gen_exec(bindir, "c35", ctx.n(2500, 10000), inputs=ctx.replay_inputs())
    # The alarm: the implementation's own output must satisfy the exact-arithmetic oracle.
    # Informational: does the code still coincide with the deterministic models the theorems are about?
    drift = correspond_once(ctx, "polygon-algorithms-valid", GROUP, REQ, cases, "agree", "prop_ok", "show", 500,
                            "ImageProc.Poly.prop_ok")
    ctx.extra["deterministic_model_disagreements"] = drift
    if drift:
        ctx.log("note: %d case(s) deviate from the deterministic models (hull scan order / simplification pivots); the property oracle decides" % drift)
    if failed and not ctx.violations:
        ctx.proof_broken(failed, "all correspondence cases of this run")
