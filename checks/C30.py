"""C30 -- Text normalizers keep an exact offset map (DESIGN.md section 2, C30)."""
import vf

META = {
    "claimed": True,
    "text": ("Coq theorems over a Gallina model of rten-text/src/normalizers.rs (Bert incl. its no-op fast path, Replace, "
             "Unicode::{Nfc,Nfd,Nfkc,Nfkd} via the UnicodeBuf stack, Sequence incl. nested sequences), for ALL texts, all "
             "configurations and ALL oracles (lowercase / decomposition / composition / Mn tables and regex matches are "
             "arbitrary functions): one offset per normalized byte; offsets non-decreasing; Sequence's map is the composition of "
             "its stages' maps and only ever looks up in-range indices or the end offset; no panic when regex matches are "
             "well-formed ranges. Boundary clause: the unchanged code VIOLATES it (known finding F16: the identity paths of "
             "Bert{}, Replace and Sequence give continuation bytes of a verbatim-copied multi-byte char the non-boundary source "
             "offset start+k; pinned by unit test test_bert_noop, so not repaired). Proved instead: the refutation witnesses; "
             "every offset at a normalized char start is a char boundary of the input (<= its length); every other offset is a "
             "boundary OR lies in exactly the F16 class (which is shown to be never a boundary); all offsets are boundaries for "
             "configurations containing an anchoring stage (Bert with an option set, any Unicode form) and whenever the normalized "
             "text is ASCII. A second defect (F20: Sequence panicked when a stage reports the end-of-text offset, e.g. "
             "Sequence[Replace('$','!')] on any input) was found by this check and fixed. The model is tied to the code by running "
             "both on the same inputs with the oracle tables dumped from the very crates rten-text calls; the implementation's own "
             "output is checked against executable oracles for all three clauses, which yields the replay input."),
    "note": ("Trusted: Coq kernel; the correspondence sample (a test, not a proof); oracles = char::to_lowercase, "
             "unicode-normalization decompose_canonical/decompose_compatible/compose, unicode_categories is_mark_nonspacing, "
             "fancy_regex find_iter (structural hypothesis for monotonicity: every match has start <= end; checked on every "
             "supplied table); valid UTF-8 of the normalized text is the Rust String invariant, reported by the harness "
             "(from_utf8 on the bytes) and the byte length is cross-checked against the model's len_utf8. Partial: the boundary "
             "clause at continuation bytes of verbatim-copied chars (F16, known finding)."),
    "technique": "Coq proof (chunk invariant by nested induction over configurations, composition lemma) + model/implementation correspondence",
}
GROUP = "normalize"
REQ = "From RV Require Import Prelude.\nFrom Normalize Require Import Model.\nOpen Scope N_scope."
THEOREMS = [
    "C30_offsets_len_eq_bytes", "C30_offsets_monotone",
    "C30_offsets_are_boundaries_refuted",
    "C30_offsets_are_boundaries_at_char_starts_partial",
    "C30_offsets_are_boundaries_excluding_F16", "C30_F16_class_is_never_a_boundary",
    "C30_offsets_are_boundaries_anchored", "C30_offsets_are_boundaries_ascii_output",
    "C30_offsets_bounded",
    "C30_sequence_composes", "C30_sequence_nil", "C30_sequence_lookups_in_range",
    "C30_no_panic",
    "C30_prop_ok_reflects", "C30_prop_ok_modF16_sound", "C30_model_passes_modF16",
    "C30_nonvacuous",
]


def main(ctx):
    ctx.rule = ("every text of length <= 2 (quick) / <= 3 (thorough) over a 7/9-char alphabet (ASCII, 2/3/4-byte chars, a combining "
                "mark, a char whose lowercase expands) x 36 fixed configurations (all Bert option sets, all Unicode forms, Replace "
                "with multi-byte / empty / anchor patterns and empty / multi-byte contents, sequences of up to 3 stages incl. "
                "nested ones), plus seeded random texts (<= ~12 chars from a 58-char alphabet: controls, combining marks, "
                "precomposed/decomposed, Hangul, CJK, 4-byte, compat ligatures, UTF-8 length edges) x random configurations "
                "(nested sequences of up to 3 stages, 26 regex patterns x 10 contents); mark clusters: {start of text, plain base, "
                "precomposed base} + every ordered pair (thorough: triple) of combining marks with different combining classes "
                "(7,10,14,202,216,220,230,240), Hangul jamo runs, under all four Unicode forms and sequences with Bert/Replace. A case is trivial when the text is empty "
                "and no Replace is involved; distinct = distinct (configuration, text)")
    ctx.trusted += [
        "oracles (modelled as arbitrary functions, tables dumped per case by the harness from the same crates): char::to_lowercase, "
        "unicode_normalization::char::{decompose_canonical, decompose_compatible, compose}, UnicodeCategories::is_mark_nonspacing, "
        "fancy_regex::Regex::find_iter",
        "structural hypothesis on the regex oracle: match.start <= match.end (monotonicity); matches in order, inside the text, on "
        "char boundaries (panic-freedom only); the first is re-checked on every table supplied to the model",
        "valid UTF-8 of the normalized text: Rust String invariant, re-checked by the harness with from_utf8 and reported",
        "Vec<char>/String buffers modelled as lists; UnicodeBuf modelled as a stack of (char, offset) pairs",
    ]
    ctx.assumptions += ["the char-level tables printed by the harness are the functions rten-text calls (same crates, same lock file)"]
    ctx.audit(GROUP)
    failed = ctx.prove(GROUP, "Props_C30", THEOREMS)
    bindir = ctx.harness(GROUP, profile="release", bins=["c30"])
    cases = ctx.gen_exec(bindir, "c30", ctx.n(1000, 24000), inputs=ctx.replay_inputs())
    for i, c in enumerate(cases):
        c["idx"] = i
    # Which property failures are exactly the known class F16?  Decided inside Coq (known_f16):
    # the model predicts the outcome exactly, the strict oracle fails and the oracle with the
    # boundary clause weakened by exactly that class (prop_ok_modF16, soundness lemma
    # C30_prop_ok_modF16_sound) passes.  Anything else stays a VIOLATION.
    not_known, _, err = ctx.coq_eval_cases(GROUP, REQ, [c["term"] for c in cases], "(fun c => known_f16 c)",
                                           "(fun _ => true)", tag="knownF16")
    if err:
        raise vf.CheckerBroken("model evaluation (known_f16) failed: " + err)
    not_known = set(not_known)

    def classify(c):
        return None if c["idx"] in not_known else "F16"

    ctx.correspond("normalize", GROUP, REQ, cases, classify=classify, show="show",
                   fn_name="Normalize.Model.normalize (Bert/Replace/Unicode/Sequence)")
    ctx.extra["f16_only_failures"] = "cases failing the strict oracle but passing prop_ok_modF16 are reported as KNOWN-FINDING F16"
    if failed and not ctx.violations:
        ctx.proof_broken(failed, "all correspondence cases of this run")
