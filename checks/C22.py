"""C22 -- Concurrent use of one model gives sequential results (DESIGN.md section 2, C22)."""
import vf

META = {
    "claimed": True,
    "text": ("PARTIAL. Proved in Coq, for every graph with a consistent source map and EVERY interleaving of the atomic "
             "steps (one step = one Graph::get_cached_plan call, which runs under the plan-cache mutex): the shared cache "
             "state always holds a plan that create_plan produced for its own key; CachedPlan::matches (as fixed for F12) "
             "accepts a query iff it is duplicate-free and has the cached id sets; every call therefore receives a "
             "duplicate-free, valid, complete, minimal plan for ITS OWN inputs/outputs or exactly the error a call on a "
             "cold cache gets (with single-producer graphs: a cache hit happens only where a cold call also succeeds); "
             "every step terminates. Observed at run time only (tests, not proofs; they can miss a narrow race): 2-8 "
             "threads calling run on one shared graph with alternating input/output sets and per-call / global thread pools, "
             "and a stress part (8 threads released together by a barrier, 4000 calls each in quick / 12000 in thorough, 8 "
             "request shapes incl. intermediates as inputs, permuted keys and partial_run, each thread mostly repeating its "
             "own shape so that almost every call replaces the plan another thread just cached) return exactly what each "
             "call returns alone; no deadlock, poisoning or panic. A lost-atomicity change of get_cached_plan "
             "(check / store / fetch under separate locks, seeded/C22-B) is reported by every stress line tried."),
    "note": ("Mutex atomicity, Arc hand-off, thread scheduling, rayon and the per-run BufferPool are run-time behaviour and "
             "are not modelled; that equal plans / any valid plan give equal outputs is C02's theorem (exec group). "
             "The weight cache is read-only after load and not modelled. F12 fixed in the tree the model describes. "
             "Value equality additionally needs the C02 fix for F11b (run inputs must not be replaced by operator outputs): "
             "two corpus inputs fail on a tree without it."),
    "technique": "Coq proof (cache invariant over all schedules of atomic steps) + sequential correspondence + concurrent observation",
}
GROUP = "planner"
REQ = "From RV Require Import Prelude.\nFrom Planner Require Import Graph PlannerModel PlanCache.\nOpen Scope N_scope.\nNotation case := case22 (only parsing)."
THEOREMS = ["C22_matches_iff", "C22_matches_old_refuted", "C22_cache_transparent", "C22_cache_transparent_from",
            "C22_hit_only_if_cold_ok", "C22_step_total", "C22_example"]


def main(ctx):
    ctx.rule = ("per case one random closed graph (2-4 inputs, 2-7 operators) and 3-8 calls alternating between 2-3 input/output "
                "sets, their permutations, duplicate-id and missing-input variants; the calls run (1) in sequence on one graph "
                "[compared with the model of the cache: executed operator order or error], (2) each alone on a fresh graph, "
                "(3) from 2-8 threads on one shared graph, 6 rounds, results compared with (2). Stress cases (4 quick / 12 "
                "thorough): one graph of 8-12 operators, 8 request shapes, 8 threads x 4000 (12000) calls behind a start "
                "barrier, every call under catch_unwind and compared with its alone-run reference; failing calls are "
                "reported as (thread, iteration, shape) in q_fail. non-trivial = every case")
    ctx.trusted += ["run-time only: std::sync::Mutex, Arc, rayon thread pools, OS scheduling (observed, not modelled)",
                    "hook rten::verif::planner::TestGraph::run = Graph::run (what Model::run calls)"]
    ctx.audit(GROUP)
    failed = ctx.prove(GROUP, "Props_C22", THEOREMS)
    ok, out = ctx.make(GROUP, ["PlanCache.vo"])
    if not ok:
        raise vf.CheckerBroken("model does not build: " + out[-1500:])
    bindir = ctx.harness(GROUP, profile="release", bins=["c22"])
    cases = ctx.gen_exec(bindir, "c22", ctx.n(200, 6000), inputs=ctx.replay_inputs())
    ctx.correspond("plan_cache", GROUP, REQ, cases, show="show22", agree="agree22", prop_ok="prop_ok22",
                   shard=ctx.n(100, 300), fn_name="Planner.PlanCache.get_cached_plan vs Graph::run (plan cache)")
    if failed and not ctx.violations:
        ctx.proof_broken(failed, "all correspondence cases of this run")
