"""C27 -- Byte-level BPE tokenization round-trips and reports consistent offsets (DESIGN.md section 2, C27)."""
import os
import vf

META = {
    "claimed": True,
    "text": ("Coq theorems over a Gallina model of rten-text (models/bpe.rs: byte_to_char/char_to_byte, Bpe::new, encode_piece, "
             "decode; tokenizer.rs: encode_str/encode_chunks/encode without cls/sep, text_for_token_range): the 256-entry "
             "byte<->char tables are mutually inverse; merging preserves the concatenation of the pieces; for every tokenizer "
             "Bpe::new accepts (no end-of-word suffix, distinct vocabulary ids, consistent added tokens), every pre-tokenizer that "
             "splits its input into consecutive valid-UTF-8 chunks and every valid UTF-8 text, decode(encode(text)) = text; for "
             "ANY Bpe model the offsets encode reports are non-decreasing, on char boundaries within the input, and the slices "
             "they delimit (and text_for_token_range returns) concatenate to the input -- also behind a normalizer whose offset "
             "map is monotone, starts at 0 and maps char boundaries to char boundaries. No bound on text, table or vocabulary "
             "size. The regex pre-tokenizer and the Unicode normalizers are oracles: their answers are inputs of the model and "
             "the hypotheses on them are checked on every case; for pre-tokenizers meant to split, dropped text is a property failure "
             "(decode(encode(s)) <> s on the implementation's own output), not a vacuous case. Tie: Tokenizer::{encode,decode}, token_offsets, "
             "text_for_token_range and char_to_byte() are run on generated tokenizers (trained merge tables, default and "
             "scrambled vocabularies, added tokens, ignore_merges, 13 pre-tokenizer configurations, 10 normalizers), on a sweep of every "
             "Unicode general category through every splitting pre-tokenizer, and on random Unicode texts, and "
             "compared with the model inside Coq; the implementation's own outputs are checked against the property there."),
    "note": ("Trusted: Coq kernel; the correspondence sample (a test, not a proof); fancy-regex, unicode-normalization and the "
             "std UTF-8 routines (from_utf8, is_char_boundary, str::get: modelled); FxHashMap as a finite map. Vocabularies with "
             "shared ids and tokenizers with an end-of-word suffix are outside the round-trip theorem (decode then appends the "
             "suffix); lossy pre-tokenizers (delimiter removal) and normalizers violating norm_ok are outside the hypotheses. "
             "Finding F41 (fixed, a203783): chunk offsets were not mapped back through the normalizer's offset map."),
    "technique": "Coq proof (finite table by vm_compute lifted with forallb_forall; induction on chunks/tables; string-level transport from C28) + model/implementation correspondence",
}
GROUP = "bpe"
REQ = "From RV Require Import Prelude.\nFrom Bpe Require Import ModelBpe ModelC27.\nOpen Scope N_scope."
THEOREMS = ["C27_byte_char_bijection", "C27_merge_preserves_concat", "C27_bpe_merge_preserves_concat",
            "C27_decode_encode", "C27_decode_encode_default_vocab", "C27_decode_encode_normalized", "C27_offsets_monotone_boundaries_cover", "C27_oracle_sound",
            "C27_nonvacuous"]


def main(ctx):
    ctx.rule = ("one TABLE case (the implementation's char_to_byte map) + the Unicode general-category sweep (>=2 representatives "
                "of every category Lu..Cn, ASCII and non-ASCII, alone / doubled / between letters, spaces, digits, for each of the 10 "
                "splitting pre-tokenizer configurations; a pre-tokenizer that drops text there is a property failure) + Split with 8 "
                "patterns that can match the empty string x invert x {Isolate, Remove} x 22 texts + one case "
                "per generated tokenizer: merges trained on "
                "the case's own texts (so they fire), vocabulary default or scrambled ids, added tokens (fresh id / same as a "
                "vocabulary entry / clashing), 4-11 Unicode texts (controls, combining marks, astral plane, special-token text, "
                "whitespace runs, empty string, random scalars) each run through encode, token_offsets, "
                "text_for_token_range(i..i+1) and decode, plus 6 decode probes on arbitrary ids; non-trivial = the tokenizer "
                "was built and the pre-tokenizer did not drop text; distinct = distinct input lines")
    ctx.trusted += ["oracles (inputs of the model, hypotheses checked per case): fancy-regex pre-tokenizers, Unicode/Bert/Replace normalizers",
                    "modelled, not verified: String::from_utf8, str::is_char_boundary, str::get, FxHashMap, slice::subslice_offsets"]
    ctx.assumptions += ["merge list shorter than 2^32 entries", "vocabulary ids pairwise distinct; no end_of_word_suffix (round trip)",
                        "pre-tokenizer chunks are consecutive and cover the (normalized) text; normalizer offset map satisfies norm_ok"]
    ctx.audit(GROUP)
    failed = ctx.prove(GROUP, "Props_C27", THEOREMS)
    ok, out = ctx.make(GROUP, ["ModelC27.vo"])          # the case record / agree / prop_ok (no proofs inside)
    if not ok:
        raise vf.CheckerBroken("ModelC27.v does not compile: " + out[-1500:])
    bindir = ctx.harness(GROUP, profile="release", bins=["c27"])
    cases = ctx.gen_exec(bindir, "c27", ctx.n(60, 900), inputs=ctx.replay_inputs())
    lim = int(os.environ.get("VERIF_BPE_LIMIT", "0"))   # debugging aid (mutation experiments): stratified subset
    if lim and len(cases) > lim:
        cases = cases[:8] + cases[8::max(1, (len(cases) - 8) // lim)]   # the corpus lines come first and are always kept
    ctx.correspond("Tokenizer::encode/decode", GROUP, REQ, cases, show="show", shard=ctx.n(10, 20),
                   fn_name="Bpe.ModelBpe.{byte_to_char,bpe_new,tk_encode,text_for_token,decode}")
    if failed and not ctx.violations:
        ctx.proof_broken(failed, "all correspondence cases of this run")
