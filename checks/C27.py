"""C27 -- Byte-level BPE tokenization round-trips and reports consistent offsets (DESIGN.md section 2, C27)."""
import vf

META = {
    "claimed": True,
    "text": "TODO",
    "note": "TODO",
    "technique": "Coq proof + model/implementation correspondence",
}
GROUP = "bpe"
REQ = "From RV Require Import Prelude.\nFrom Bpe Require Import ModelBpe ModelC27.\nOpen Scope N_scope."
THEOREMS = []


def main(ctx):
    ctx.audit(GROUP)
    failed = []
    ok, out = ctx.make(GROUP, ["ModelC27.vo"])
    if not ok:
        raise vf.CheckerBroken(out[-2000:])
    bindir = ctx.harness(GROUP, profile="release", bins=["c27"])
    cases = ctx.gen_exec(bindir, "c27", ctx.n(150, 3000), inputs=ctx.replay_inputs())
    ctx.correspond("Tokenizer::encode/decode", GROUP, REQ, cases, show="show", shard=ctx.n(10, 40),
                   fn_name="Bpe.ModelBpe.{bpe_new,tk_encode,decode,byte_to_char}")
    if failed and not ctx.violations:
        ctx.proof_broken(failed, "all correspondence cases of this run")
