"""C29 -- Chunked encoding respects limits and partitions the token stream (DESIGN.md section 2, C29)."""
import vf

META = {
    "claimed": True,
    "text": ("Coq theorems, for all token sequences, limits (incl. None and limits below the special-token overhead), overlaps "
             "(incl. overlap >= window) and CLS/SEP configurations, single and paired inputs, over a Gallina model of "
             "rten-text/src/split.rs::chunks_with_overlap (std windows/step_by modelled structurally, no fuel) and "
             "tokenizer.rs::encode_chunks: a closed form of the output as an explicit list of (start,length) windows; totality "
             "(decision table: exactly which parameters give Err, panic, no chunks, chunks); every chunk <= max_chunk_len "
             "including special tokens; every chunk is head ++ contiguous window ++ [SEP] (pairs: the whole first sequence in "
             "every chunk); windows start at 0, advance, leave no gap, end at the last token and cover every token whenever "
             "the limit leaves room for one content token; consecutive windows overlap by exactly `overlap` -- proved for "
             "every consecutive pair except (last full window, final partial chunk), with an iff showing that class is exactly "
             "where it fails (known finding F15, pinned by the unit test test_chunks_overlap; witness lemma "
             "C29_consecutive_overlap_refuted). The model is tied to the code by running model and Tokenizer::encode_chunks "
             "(public API, trivial one-token-per-char Model) on the same inputs: exhaustive small scope plus seeded random "
             "with extreme usize values, unknown special tokens and failing encodings; outcomes (chunks incl. token-type "
             "counts / Err / panic) are compared inside Coq, and the implementation's own output is judged by an executable "
             "oracle that does not use the model. Finding F20 (panic when overlap >= input length but < window) was repaired "
             "in rten-text (fix: commit ebb744b on branch verif-chunks); the theorems are about the repaired code."),
    "note": ("Trusted: Coq kernel; the correspondence sample (a test, not a proof); std's slice::windows / Iterator::step_by / "
             "Vec semantics as modelled; Model::encode, normalizers and pre-tokenizers (the token sequences are universally "
             "quantified inputs of the theorems; the harness uses a one-char-one-token Model so that ids are predictable). "
             "Token *offsets* of Encoded are not modelled. For pairs the windows are over the second sequence (the first is a "
             "fixed prefix); a pair whose second sequence is empty yields no chunk at all (stated by the totality theorem, "
             "accepted by the oracle). The executable oracle has a soundness lemma for the Chunks outcome (C29_oracle_sound: no "
             "failure code => the observed chunks satisfy the Prop-level property); the converse (a failure code is a genuine "
             "violation) holds for duplicate-free token ids by inspection and is what the replay file lets a reader confirm."),
    "technique": "Coq proof (structural induction on lists, nth_error extensionality, div/mod arithmetic) + model/implementation correspondence",
}
GROUP = "chunks"
REQ = "From RV Require Import Prelude.\nFrom Chunks Require Import ModelChunks.\nOpen Scope N_scope."
THEOREMS = ["C29_chunks_with_overlap_layout", "C29_totality", "C29_windows_contiguous", "C29_one_chunk_per_window",
            "C29_chunk_len_bound", "C29_consecutive_overlap_exact", "C29_consecutive_overlap_iff",
            "C29_remainder_chunk_adjacent", "C29_consecutive_overlap_refuted", "C29_consecutive_overlap_refuted_pair",
            "C29_windows_in_order", "C29_windows_span", "C29_windows_cover", "C29_oracle_sound", "C29_nonvacuous"]


def main(ctx):
    ctx.rule = ("exhaustive small scope: Item lengths<=12 x limits{None,0..8 (thorough: 12)} x overlaps<=5 (8) x CLS/SEP "
                "present/absent; Pair first in {0,1,2} (thorough {0,1,2,3,5,8,12}) x second<=8 (12) x limits {None, 0, "
                "fixed-1, fixed+0..6 (9)} where fixed = special tokens + first length x overlaps<=3 (8) x CLS/SEP (quick: "
                "mixed CLS/SEP thinned); plus seeded random (lengths<=60, limits around the overhead and the sequence length, "
                "usize::MAX-k, overlap =/</> window, unknown special tokens, failing encodings). Non-trivial = the call "
                "returned at least one chunk, panicked or failed (tags not starting with `trivial`); distinct = distinct "
                "input lines")
    ctx.trusted += ["modelled, not verified: <[T]>::windows, Iterator::step_by, slice indexing (structural Gallina "
                    "definitions windows/step_by_aux/skipn); Vec growth",
                    "oracle inputs of the theorems: Model::encode_with_offsets, Normalizer, PreTokenizer (the encoded "
                    "token sequences are universally quantified)",
                    "encode_chunks is reached through the public Tokenizer API with a custom one-token-per-char Model "
                    "(harness/chunks/src/lib.rs); chunks_with_overlap is private and exercised only through it"]
    ctx.assumptions += ["usize is 64 bits (max_chunk_len None is modelled as usize::MAX = 2^64-1)",
                        "the judge/prop_ok oracle locates windows by their first token, which is sound because the "
                        "harness generates pairwise distinct token ids"]
    ctx.audit(GROUP)
    failed = ctx.prove(GROUP, "Props_C29", THEOREMS)
    bindir = ctx.harness(GROUP, profile="release", bins=["c29"])
    cases = ctx.gen_exec(bindir, "c29", ctx.n(1000, 12000), inputs=ctx.replay_inputs())
    shard = ctx.n(400, 1500)

    # Known finding F15: a failing case is attributed to F15 only if the *only* clause of the
    # oracle that fails is "the final partial chunk does not overlap its predecessor"
    # (Coq: only_f15 c, i.e. codes_of c = [7]).  Candidates: several chunks and overlap > 0.
    cand = [c for c in cases if "multi" in c["tag"]]
    f15 = set()
    if cand:
        not_f15, _, err = ctx.coq_eval_cases(GROUP, REQ, [c["term"] for c in cand],
                                             agree="only_f15", prop_ok="only_f15", shard=shard, tag="f15")
        if err:
            raise vf.CheckerBroken("evaluation of only_f15 failed: " + err)
        bad = set(not_f15)
        f15 = {c["input"] for i, c in enumerate(cand) if i not in bad}

    def classify(c):
        return "F15" if c["input"] in f15 else None

    ctx.correspond("encode_chunks", GROUP, REQ, cases, classify=classify, show="show", shard=shard,
                   fn_name="Chunks.ModelChunks.encode_chunks (rten-text Tokenizer::encode_chunks, split.rs chunks_with_overlap)")
    ctx.extra["f15_cases"] = len(f15)
    if failed and not ctx.violations:
        ctx.proof_broken(failed, "all correspondence cases of this run")
