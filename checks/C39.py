"""C39 -- CTC decoding returns distinct, correctly scored hypotheses (DESIGN.md section 2, C39)."""
import vf

META = {
    "claimed": True,
    "text": ("Coq theorems over a Gallina model of src/ctc.rs working on PROBABILITIES in an exact ordered commutative semiring "
             "(N-weighted matrices = rational probabilities over a common denominator; + for log_sum_exp, * for + of logs, 0 for -inf). "
             "Greedy (all matrices): the decode_greedy loop equals the specification 'runs of the arg-max path, blanks removed, position of "
             "the first frame of each run', arg_max returns a maximal (the last maximal) index, the score is the product of the row maxima. "
             "Beam (all matrices, all beam widths and n-best counts, code after the F14 fix): the beam holds pairwise distinct label sequences "
             "after every frame, hence the returned hypotheses are pairwise distinct; every returned score is non-zero (finite log) and is <= the "
             "exact CTC probability of its label sequence, defined by brute-force enumeration of every alignment (also shown equal to the "
             "forward-alignment sum); and equals it when no offered extension is ever pruned. The unfixed selection loop is refuted by a "
             "vm_compute witness (uniform 2x3, beam 20: duplicated label sequences, zero-probability hypotheses = F14). "
             "Tie: matrices with T<=5, L<=4 and dyadic probabilities (ln(p) handed to CtcDecoder; uniform rows, zeros = -inf, ties, dead rows), "
             "beam widths and n-best 1..25, exhaustive tiny scope (T<=2, L<=3 over a 3-value alphabet); label sequences and positions compared "
             "exactly (greedy: against every arg-max path, so a changed arg_max tie-break raises no alarm and is only counted in the evidence), "
             "scores within 2^-13 relative and only where the model's ranking gaps exceed 2^-10 (otherwise the beam comparison of that "
             "case is skipped and counted, never reported); the implementation's own output is checked against the property oracle "
             "(distinct, finite, <= exact brute-force probability computed in Coq, = exact when unpruned, greedy = collapsed arg-max for some tie-break)."),
    "note": ("Partial: f32 rounding of log_sum_exp/ln/exp is not modelled (scores are compared with tolerance through exp() computed by the "
             "harness in f64); accumulation order of the next_prob tables is abstracted by commutativity. Trusted: Coq kernel, the correspondence "
             "sample (a test), std HashMap/sort_by/total_cmp and rten's arg_max (modelled), libm ln/exp in the harness."),
    "technique": "Coq proof (invariant per frame over an exact semiring; forward-variable bound against brute-force alignment sums) + model/implementation correspondence",
}
GROUP = "ctc"
REQ = "From RV Require Import Prelude.\nFrom Ctc Require Import ModelCtc.\nOpen Scope N_scope."
THEOREMS = ["C39_greedy_is_collapsed_argmax", "C39_greedy_loop_is_collapse", "C39_greedy_positions_first", "C39_argmax_first_max",
            "C39_beam_step_keeps_prefixes_distinct", "C39_beam_prefixes_distinct", "C39_beam_scores_nonzero",
            "C39_beam_score_le_exact", "C39_beam_exact_when_unpruned", "C39_beam_complete_when_unpruned",
            "C39_exact_is_alignment_sum", "C39_forward_recursion_is_exact",
            "C39_beam_prefixes_distinct_refuted", "C39_oracle_greedy_sound", "C39_oracle_beam_sound", "C39_alpha_dp_is_alpha", "C39_nonvacuous"]


def classify(c):
    return None


def main(ctx):
    ctx.rule = ("exhaustive matrices T<=2, L<=2 (quick) / L<=3 (thorough) over the probability alphabet {0, 4/16, 5/16} x several (beam, n-best) pairs, "
                "plus a structured family of 600 (quick) / 6000 (thorough) narrow-beam inputs (T 4..6, L 3..4, beam 2..4, weights {1,3,13,30}/128) "
                "selected by an integer re-run of the search for having a prune-then-recreate history (a prefix dropped from the beam and "
                "re-created later while its extension survived, so the merge map joins states of different lineage), "
                "plus a deep family (32 / 400 inputs with T in {8,16,32,64}, L 2..4, every entry k*2^-e, e in 20..40, beams 1..8, reference = "
                "proved forward recursion instead of brute force when L^T > 4096; and 16 / 200 short inputs T 4..6 with entries 2^-35..2^-40, beam 25) "
                "whose log-probabilities reach -100 .. -1800, "
                "plus seeded random matrices T<=5, L<=4 with dyadic probabilities (uniform, one-hot, tied peaks, dead rows, small palettes, random "
                "splits with zeros), beam 1..25, n-best 1..25; non-trivial = at least one frame; distinct = distinct (matrix, beam, n-best)")
    ctx.trusted += ["modelled, not verified: std HashMap (merge map: last insert wins), Vec::sort_by (stable) + total_cmp, Iterator::max_by "
                    "(last maximum) behind rten's arg_max, f32 ln / log_sum_exp rounding",
                    "harness: probabilities num/2^j are exact f32; ln() by std; exp(score) in f64 printed as its exact dyadic value"]
    ctx.assumptions += ["beam_size >= 1 and n_labels >= 1 (the implementation indexes out of bounds otherwise)",
                        "inputs are log-probabilities (no NaN, no +inf, entries <= 0)"]
    ctx.audit(GROUP)
    failed = ctx.prove(GROUP, "Props_C39", THEOREMS)
    bindir = ctx.harness(GROUP, profile="release", bins=["c39"])
    cases = ctx.gen_exec(bindir, "c39", ctx.n(2000, 15000), inputs=ctx.replay_inputs())
    # the long ("deep") inputs carry numbers of thousands of bits: evaluate them in small shards so that
    # they spread over the cores instead of forming one slow shard
    deep = [c for c in cases if "-deep-" in c["tag"]]
    rest = [c for c in cases if "-deep-" not in c["tag"]]
    ctx.correspond("CtcDecoder", GROUP, REQ, rest, classify=classify, show="show", shard=250,
                   fn_name="Ctc.ModelCtc.{greedy_steps,decode_beam_nbest}")
    if deep:
        ctx.correspond("CtcDecoder-deep", GROUP, REQ, deep, classify=classify, show="show", shard=ctx.n(3, 8),
                       fn_name="Ctc.ModelCtc.{greedy_steps,decode_beam_nbest} (long inputs, forward-recursion reference)")
    cases = rest
    # informational (no alarm): how many cases had their beam comparison skipped (ranking gap below the
    # margin), how many ran unpruned (the 'scores are exact' clause applied), and whether arg_max still
    # breaks ties the way the deterministic model does (last maximum) -- a policy, not part of the property
    sub = cases[-ctx.n(750, 3000):]
    terms = [c["term"] for c in sub]
    nd, nu, err = ctx.coq_eval_cases(GROUP, REQ, terms, "is_decisive", "is_unpruned", 250, tag="info")
    nt, _, err2 = ctx.coq_eval_cases(GROUP, REQ, terms, "greedy_tiebreak_as_modelled", "is_unpruned", 250, tag="tie")
    if not err and not err2:
        ctx.extra["beam_comparison_skipped_for_ranking_gap"] = {"of": len(sub), "skipped": len(nd)}
        ctx.extra["unpruned_cases_checked_for_exact_score"] = {"of": len(sub), "unpruned": len(sub) - len(nu)}
        ctx.extra["greedy_tiebreak_differs_from_model"] = {"of": len(sub), "differs": len(nt)}
        ctx.log("beam comparison skipped (ranking gap below margin): %d of %d; unpruned (exactness clause applies): %d; "
                "greedy tie-break differs from the model (informational): %d"
                % (len(nd), len(sub), len(sub) - len(nu), len(nt)))
    if failed and not ctx.violations:
        ctx.proof_broken(failed, "all correspondence cases of this run")
