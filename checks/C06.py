"""C06 -- Safe tensor APIs never access memory out of bounds or alias mutably (DESIGN.md section 2, C06)."""
import os
import vf

META = {
    "claimed": True,
    "text": ("Coq theorems over a Gallina model of the storage-length arithmetic behind rten-tensor's unsafe blocks, with every usize "
             "operation modelled both wrapping (release) and overflow-panicking (debug): for all shapes, strides and storage lengths, "
             "an Ok/accepted result of try_from_data, from_data, from_data_with_strides, from_slice_with_strides, "
             "from_storage_and_layout and expanded_layout (has_capacity/append) establishes the TrustedLayout promise "
             "Inv: every valid index has a true (unbounded) offset < storage length; the mutable ones additionally give an injective "
             "index->offset map (via C08's theorems, whose precondition min_data_len < 2^64 is discharged here); the outcome of every "
             "constructor is the same in both build modes and never an arithmetic-overflow panic; under Inv, checked indexing "
             "(NdLayout/DynLayout::offset behind get/get_mut/Index/IndexMut) returns exactly the true offset for valid indices and "
             "None (or, DynLayout in debug builds only, an overflow panic) otherwise; get_array/set_array offsets are in bounds; permuting axes, shrinking sizes and longer storage preserve Inv. Refutation witnesses "
             "are proved for the arithmetic of the unfixed tree (F4 family). The model is tied to the code by running both on the same "
             "inputs in release AND debug harness builds (exhaustive small scope + extreme usize values + seeded random) and comparing "
             "accept/reject/error kind/panic kind, resulting shape/strides and the offsets returned by get/Index for every probed index; "
             "the implementation's own outcomes are also checked against an exact-arithmetic oracle (in bounds, injective)."),
    "note": ("Partial: the Rust `unsafe` blocks themselves are not verified (their safety comments are the proved Inv); view-producing "
             "layout operations other than permutation are covered by C09 (layoutops), iterators by C07. Trusted: Coq kernel, the "
             "correspondence sample, the harness' panic-message classification, Vec::capacity as reported."),
    "technique": "Coq proof (induction over dimension lists, two arithmetic modes) + model/implementation correspondence in release and debug builds",
}
GROUP = "tensor"
EXPECTED_UNSAFE_SITES = 11
REQ = "From RV Require Import Prelude.\nFrom Tensor Require Import Overlap Layout.\nOpen Scope N_scope."
THEOREMS = ["C06_try_from_data_exact", "C06_from_data_with_strides_exact", "C06_from_slice_with_strides_exact",
            "C06_from_storage_and_layout_exact", "C06_expanded_layout_exact",
            "C06_try_from_data_establishes_inv", "C06_from_data_establishes_inv", "C06_contiguous_unique",
            "C06_from_data_with_strides_establishes_inv", "C06_from_slice_with_strides_establishes_inv",
            "C06_from_storage_and_layout_establishes_inv", "C06_expanded_layout_establishes_inv",
            "C06_index_checked", "C06_index_some_in_bounds", "C06_array_offsets_in_bounds", "C06_norm_len", "C06_weak_index_in_bounds",
            "C06_inv_permute", "C06_inv_shrink", "C06_inv_mono", "C06_oracle_inv", "C06_oracle_injective",
            "C06_try_from_data_old_refuted", "C06_try_from_data_old_debug_panics",
            "C06_from_data_with_strides_old_refuted", "C06_from_slice_with_strides_old_refuted",
            "C06_from_storage_and_layout_old_refuted", "C06_expanded_layout_old_refuted",
            "C06_fixed_on_witnesses", "C06_nonvacuous"]


def main(ctx):
    ctx.rule = ("per build profile (release, debug): exhaustive small scope (contiguous constructors: rank<=3, sizes<=2 (quick) / <=3 "
                "(thorough), lengths product-1..product+1; strided constructors: rank<=2, sizes<=2/3, strides<=3/5, lengths "
                "min_data_len-1..+1; rank 3 with three non-unit dims and arbitrary strides<=6/8 at length max_off+1), has_capacity on size-1 axes with stale strides, histories (from_data with spare capacity, then append/transpose/permute, then has_capacity on the reached state), a fixed family of overflow inputs (F4 and variants), and seeded random cases (derived layouts, "
                "extreme usize shapes/strides/lengths incl. values engineered to wrap, mismatched shape/stride lengths, pure offset "
                "queries, has_capacity, weakly-checked indexing); each accepted in-bounds tensor is probed with get/Index/offset on all "
                "(<=24) or corner valid indices and on invalid ones; non-trivial = every case except skipped ones (base tensor not "
                "constructible); distinct = distinct input lines")
    ctx.trusted += ["modelled, not verified: every `unsafe` block of rten-tensor (get_unchecked after offset(), slice construction); "
                    "their safety comments are the Inv theorems",
                    "harness classifies panics by message (overflow / assertion / other) and never dereferences an element of a tensor "
                    "that its own u128 oracle does not prove in bounds",
                    "SmallVec, sort_unstable (see C08), Vec::with_capacity/capacity (the observed capacity is an input of the model)"]
    ctx.assumptions += ["usize is 64 bits", "storage length and capacity are < 2^64 (they are usize values)"]
    ctx.audit(GROUP)
    # the unsafe element accesses whose safety comments are the proved promise (recorded, re-scanned every run)
    try:
        src = open(os.path.join(vf.REPO, "rten-tensor/src/tensor.rs")).read().split("\n")
        sites = ["tensor.rs:%d: %s" % (i + 1, l.strip()[:90]) for i, l in enumerate(src)
                 if "get_unchecked" in l and "fn get_unchecked" not in l and not l.strip().startswith("//")]
        ctx.extra["unsafe_sites_relying_on_Inv"] = sites
        if len(sites) != EXPECTED_UNSAFE_SITES:
            ctx.notes.append("unsafe-site scan: %d get_unchecked uses in tensor.rs, %d when the proofs were written "
                             "(a new site is not covered by a theorem until it is reviewed)" % (len(sites), EXPECTED_UNSAFE_SITES))
    except OSError:
        ctx.notes.append("unsafe-site scan: rten-tensor/src/tensor.rs not readable")
    failed = ctx.prove(GROUP, "Props_C06", THEOREMS) if THEOREMS else []
    agree = "agree_old" if os.environ.get("VERIF_C06_OLD") == "1" else "agree"
    n = ctx.n(450, 4000)
    for profile in ("release", "debug"):
        bindir = ctx.harness(GROUP, profile=profile, bins=["c06"])
        rc, mode = ctx.run_bin(os.path.join(bindir, "c06"), ["mode"])
        want = "Release" if profile == "release" else "Debug"
        if mode.strip() != want:
            raise vf.CheckerBroken("harness profile %s reports arithmetic mode %r" % (profile, mode.strip()))
        cases = ctx.gen_exec(bindir, "c06", n, inputs=ctx.replay_inputs())
        ctx.correspond("constructors+indexing[%s]" % profile, GROUP, REQ, cases, show="show", agree=agree, shard=400,
                       fn_name="Tensor.Layout (%s arithmetic)" % want)
    if failed and not ctx.violations:
        ctx.proof_broken(failed, "all correspondence cases of this run")
