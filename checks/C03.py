"""C03 -- Execution plans are valid, complete and minimal (DESIGN.md section 2, C03)."""
import vf

META = {
    "claimed": True,
    "text": ("Coq theorems over a Gallina model of src/graph/planner.rs (Planner::create_plan, PlanBuilder::visit / plan / "
             "sort_plan, ResolvedValueSet; as fixed for finding F11) for EVERY graph whose source map is consistent "
             "(wf_graph) and every request: planning terminates (the fuel |ops|+1 resp. |plan|+1 is never exhausted); an Ok "
             "plan has no duplicates, consists of operator nodes, every dependency (inputs and subgraph captures) of an "
             "entry is a run input / available capture / constant / output of an EARLIER entry, every requested output "
             "is produced, every entry is needed by a requested output; Err is returned exactly for duplicate or non-value "
             "ids, or when a requested output is not computable (missing source or dependency cycle). The model is tied to "
             "the code by running model and Graph::execution_plan (hook) on the same graphs and requests and comparing "
             "the exact operator sequence or error (with the ids it names) inside Coq; the implementation's own answers "
             "are additionally checked by executable oracles that are proved EXACT (plan_okb <-> the five plan properties; request_plannableb <-> plannable)."),
    "note": ("Trusted: Coq kernel; the correspondence sample (a test, not a proof); FxHashMap/FxHashSet/Vec modelled as "
             "lists; the hook's test operator and name scheme n<id>. F11 (sort_plan scheduled an operator twice, and "
             "looped forever on an operator consuming its own output that is also a run input) is fixed in the tree "
             "the model describes."),
    "technique": "Coq proof (fuel-indexed induction with DFS / frontier invariants) + model/implementation correspondence",
}
GROUP = "planner"
REQ = "From RV Require Import Prelude.\nFrom Planner Require Import Graph PlannerModel.\nOpen Scope N_scope."
THEOREMS = ["C03_mk_graph_wf", "C03_create_plan_terminates", "C03_create_plan_total", "C03_plan_nodup",
            "C03_plan_ops_exist", "C03_plan_valid", "C03_plan_complete", "C03_plan_minimal", "C03_plan_errors_exact",
            "C03_plannable_never_rejected", "C03_initial_frontier_nonempty", "C03_oracle_exact",
            "C03_plannable_oracle_exact", "C03_example_wf", "C03_example_plans", "C03_example_sorted",
            "C03_example_cycle", "C03_example_F11"]


def main(ctx):
    ctx.rule = ("graphs: (a) all graphs with 2 operators over 3 value ids (arity<=2, <=2 outputs, repeated inputs, cycles) "
                "[exhaustive in thorough, sampled in quick] each with ALL input subsets x non-empty output subsets x "
                "allow_missing on/off; all 1-operator graphs incl. optional inputs/outputs; (b) the same scope with optional "
                "inputs/outputs, in-place flag, a constant: sampled; (c) 3 operators over 5 value ids: sampled graphs x 16 "
                "sampled requests; (d) random graphs up to 40 operators (multi-output, captures, shared outputs, outputs "
                "that are run inputs, cycles, missing/unknown/duplicate/operator ids in requests). One case = one graph with "
                "all its requests; evaluations counts cases; non-trivial = some request yields a non-empty plan or an error")
    ctx.trusted += ["modelled, not verified: FxHashMap / FxHashSet / Vec / SmallVec (as association lists and lists)",
                    "hook rten::verif::planner (graph construction through Graph::add_value/add_constant/add_op, "
                    "Graph::execution_plan) and its trivial test operator"]
    ctx.audit(GROUP)
    failed = ctx.prove(GROUP, "Props_C03", THEOREMS)
    ok, out = ctx.make(GROUP, ["PlannerModel.vo"])
    if not ok:
        raise vf.CheckerBroken("model does not build: " + out[-1500:])
    bindir = ctx.harness(GROUP, profile="release", bins=["c03"])
    cases = ctx.gen_exec(bindir, "c03", ctx.n(1600, 16000), inputs=ctx.replay_inputs())
    ctx.extra["requests_evaluated"] = sum(c["term"].count("mkreq ") + (112 if "small_reqs 3" in c["term"] else 0) for c in cases)
    ctx.exhaustive = False
    ctx.correspond("create_plan", GROUP, REQ, cases, show="show", shard=ctx.n(150, 250),
                   fn_name="Planner.PlannerModel.create_plan vs Graph::execution_plan")
    if failed and not ctx.violations:
        ctx.proof_broken(failed, "all correspondence cases of this run")
