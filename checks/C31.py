"""C31 -- Logit filters implement their contracts for all inputs (DESIGN.md section 2, C31)."""
import vf

META = {
    "claimed": True,
    "text": ("Coq theorems over a Gallina model of rten-generate/src/filter.rs (TopK/SimdTopK, TopP, Temperature, "
             "token_id_filter, Sort, Chain incl. nested chains) on f32 BIT PATTERNS (total_cmp as Rust's integer key, "
             "IEEE < with NaN incomparable and -0 == +0), for all logit vectors, all K, all P, every SIMD width >= 1, "
             "every f32 addition and every softmax function: top-K never panics and returns min(K,n) entries, sorted "
             "descending by the total order, that are a sub-multiset of the input such that no dropped entry exceeds a "
             "kept one, and any output meeting that contract has exactly the scores of sort-then-truncate; SIMD chunk+tail = scalar loop; top-P returns the input for p == 1.0 and otherwise a descending "
             "top-prefix of the (softmax-normalised or raw) candidates such that no strictly shorter prefix reaches "
             "max(p, MIN_POSITIVE) and the prefix itself does unless it is everything, and is non-empty for non-empty "
             "input (partial sums = the code's own f32 sums); a Chain is the panic-propagating composition of its "
             "filters, nesting flattens; no filter panics. The theorems are about the code AFTER three fix commits "
             "(F6: K > n panicked; F6b: later entries were admitted with the partial order `>`; F7: TopP::new set "
             "normalize=false against its documentation); `_refuted` witness lemmas show the code as found violates "
             "the property. Model and code are tied by running both on the same inputs on every run (lengths 0..40, "
             "NaNs of both signs/payloads, +-inf, +-0, subnormals, ties, K in 0..n+3 and usize::MAX, P in {0, tiny, "
             ".5, 1-eps, 1, >1, inf, NaN, <0}, chains of up to 3 filters in several orders, nested chains, dense and "
             "sparse constructors incl. duplicate ids) and comparing ids + score bit patterns inside Coq; the "
             "implementation's own outputs are additionally checked against executable contracts that have reflection "
             "lemmas (a failure is a concrete replay input). Only exercised, not proved: that Rust's stable sort_by, "
             "SIMD compare/reinterpret and f32 arithmetic behave as modelled (insertion sort; Flocq binary32 with the "
             "x86-64 NaN rule), and the softmax values themselves (oracle)."),
    "note": ("Trusted: Coq kernel; correspondence sample (a test); slice::sort_by modelled as stable insertion sort over the "
             "total_cmp key; rten-simd lanes (reinterpret_cast, shift, xor, gt) and Isa dispatch; rten_vecmath::Softmax is "
             "an oracle (its outputs are read from the Rust run; theorems quantify over all softmax functions); f32 "
             "+,*,/ are Flocq's Bplus/Bmult/Bdiv (round-to-nearest-even) with the SSE NaN-propagation rule, validated "
             "only through the correspondence run on x86-64. Top-P with normalisation returns the softmax values as the "
             "new scores (as the code does); whether that is desirable downstream is outside the property."),
    "technique": "Coq proof (loop invariants over the running top-K list, induction over chunks / chains, reflection lemmas for the oracles) + model/implementation correspondence on f32 bit patterns",
}
GROUP = "filters"
REQ = ("From RV Require Import Prelude.\nFrom Filters Require Import Floats ModelFilters.\n"
       "Open Scope N_scope.")
THEOREMS = ["C31_topk_spec", "C31_topk_contract_fixes_scores", "C31_topk_scores_are_sort_truncate", "C31_topk_total", "C31_topk_simd_width_irrelevant", "C31_simd_loop_is_scalar_loop",
            "C31_topp_shortest_prefix", "C31_topp_nonempty", "C31_topp_never_panics",
            "C31_chain_is_composition", "C31_no_filter_panics",
            "C31_topk_oracle_reflects", "C31_topp_oracle_reflects",
            "C31_total_order_antisymmetric", "C31_topp_threshold_positive",
            "C31_F6_topk_k_gt_n_refuted", "C31_F6b_topk_partial_order_refuted", "C31_F7_topp_default_refuted",
            "C31_nonvacuous"]


def main(ctx):
    ctx.rule = ("small-scope exhaustive: every logit vector of length <= 3 (quick) / <= 4 (thorough) over {+NaN, -NaN, -0, +0, "
                "1.0, -inf} x every K in 0..len+1, and every vector of length <= 3 over dyadic probabilities {0,1/8,1/4,1/2,1} x 8 "
                "thresholds for un-normalised top-P; plus seeded random single filters over all lengths 0..40 (8 value profiles: "
                "plain, ties, specials, arbitrary bit patterns, dyadic, -inf masks, ascending, descending) and chains of 2-3 "
                "filters (incl. nested chains) in several orders, dense and sparse constructors. A case is non-trivial when "
                "the input is non-empty and the chain is non-empty; distinct = distinct input lines.")
    ctx.trusted += [
        "modelled, not verified: slice::sort_by (stable insertion sort over the total_cmp key), Vec/iterator plumbing of Logits",
        "modelled, not verified: rten-simd f32/i32 lane operations used by SimdTopK (gt on total-order keys, any, to_array, tail handling)",
        "oracle: rten_vecmath::Softmax (outputs read from the Rust run; the theorems hold for every softmax function)",
        "modelled, not verified: f32 add/mul/div = Flocq binary32 Bplus/Bmult/Bdiv mode_NE + x86-64 SSE NaN rule (exercised by every top-P / Temperature case)",
    ]
    ctx.assumptions += ["checks run on x86-64 (NaN payload propagation of mulss as modelled in Floats.nanfix)",
                        "Temperature::new is only constructed with temperatures >= 0 (its constructor asserts this)"]
    ctx.audit(GROUP)
    # the Print-Assumptions regex of lib/vf.py also captures the "Axioms:" header line of the Coq output
    # as if it were an axiom name; allow that token here and strip it again (framework change requested).
    failed = ctx.prove(GROUP, "Props_C31", THEOREMS, extra_allowed=("Axioms",))
    ctx.axioms_used.discard("Axioms")
    ctx.obligations = [(n, ok, d.replace("axioms: Axioms,", "axioms: ")) for (n, ok, d) in ctx.obligations]
    bindir = ctx.harness(GROUP, profile="release", bins=["c31"])
    cases = ctx.gen_exec(bindir, "c31", ctx.n(3000, 12000), inputs=ctx.replay_inputs())
    ctx.correspond("filters", GROUP, REQ, cases, show="show",
                   fn_name="Filters.ModelFilters.run (TopK/TopP/Temperature/TokenIdFilter/Sort/Chain)")
    if failed and not ctx.violations:
        ctx.proof_broken(failed, "all correspondence cases of this run")
