"""C31 -- Logit filters implement their contracts for all inputs (DESIGN.md section 2, C31)."""
import vf

META = {
    "claimed": True,
    "text": "",
    "note": "",
    "technique": "Coq proof (loop invariants over the running top-K list, induction over chunks / chains) + model/implementation correspondence on f32 bit patterns",
}
GROUP = "filters"
REQ = ("From RV Require Import Prelude.\nFrom Filters Require Import Floats ModelFilters.\n"
       "Open Scope N_scope.")
THEOREMS = []


def main(ctx):
    ctx.audit(GROUP)
    failed = ctx.prove(GROUP, "Props_C31", THEOREMS) if THEOREMS else []
    bindir = ctx.harness(GROUP, profile="release", bins=["c31"])
    cases = ctx.gen_exec(bindir, "c31", ctx.n(3000, 40000), inputs=ctx.replay_inputs())
    ctx.correspond("filters", GROUP, REQ, cases, show="show",
                   fn_name="Filters.ModelFilters.run (TopK/TopP/Temperature/TokenIdFilter/Sort/Chain)")
    if failed and not ctx.violations:
        ctx.proof_broken(failed, "all correspondence cases of this run")
