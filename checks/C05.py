"""C05 -- Loading untrusted model bytes is safe, bounded and well-formed (DESIGN.md section 2, C05)."""
import os
import vf

META = {
    "claimed": True,
    "text": ("Coq theorems over Gallina models of (a) rten-model-file's Header::from_buf/to_buf: round trip, and an accepted "
             "header's offsets and lengths lie inside the buffer as integers (not modulo 2^64), no panic outcome; (b) the "
             "arithmetic that accepts a constant in the .rten loader (inline and tensor-data-segment constants, checked "
             "product / byte length / offset) and in the ONNX loader (i64 dims -> usize, element counts of raw and typed "
             "data, try_from_data): an accepted constant's element count, computed in Z, fits in usize, equals the length "
             "of its backing data and lies inside the file; no panic outcome is reachable on these paths; (c) the protobuf "
             "decoder used for ONNX files (property C38, same Coq development). Witness lemmas refute (b) for the .rten "
             "loader before the F13 fix. The models are tied to the code by building one-constant .rten and ONNX files "
             "with field-level mutations (dims near 2^31/2^32/2^63, wrapping products, offsets near the file end / 2^64, "
             "shape/data mismatches), loading them with Model::load, running them, and comparing shape, element count "
             "and error/panic class inside Coq, in release and debug builds. Whole-file byte mutations through Model::load "
             "are run-time observations only (no panic / hang / crash seen), not proofs."),
    "note": ("Partial: the FlatBuffers verifier, graph construction, operator loading, the optimizer, external-data files "
             "and memory-mapping are exercised, not modelled; absence of undefined behaviour in unsafe code is not proved. "
             "try_from_data is modelled as the checked version (finding F4, fixed under C06); on a tree without that fix "
             "the ONNX cases with wrapping shapes disagree. Trusted: Coq kernel, the correspondence sample, flatbuffers / "
             "std, the harness' file builders."),
    "technique": "Coq proof (list/arith induction, machine arithmetic explicit) + model/implementation correspondence; whole-file mutation runs as a test",
}
GROUP = "loader"
REQ = "From RV Require Import Prelude.\nFrom Loader Require Import Pins ModelC05.\nOpen Scope N_scope."
THEOREMS = ["C05_header_roundtrip", "C05_header_accept_bounds", "C05_header_total",
            "C05_constant_accept_sound", "C05_onnx_constant_accept_sound", "C05_loader_no_panic",
            "C05_F13_refuted", "C05_nonvacuous"]

WHOLE = r"\A(.*)\Z"
PINS = [
    vf.Pin("HEADER_LEN", "rten-model-file/src/header.rs", r"pub const LEN: usize = (\d+);"),
    vf.Pin("RTEN_CHECKED", "src/model/rten_loader.rs", WHOLE, "bool",
           conv=lambda src: "true" if all(k in src for k in ("fn checked_len(", "offset.checked_add(byte_len)",
                                                              "if checked_len(shape) != Some(data_len)")) else "false"),
]


def main(ctx):
    ctx.rule = ("headers: every combination of extreme / boundary model_offset, model_len, tensor_data_offset for files of 32..64 "
                "bytes, truncations, bad magic / version, random; .rten files with one constant (4 element types, inline V1/V2 and "
                "tensor-data-segment storage) over shapes whose product is small, huge or wraps modulo 2^64, element counts and "
                "offsets at, one beyond and far beyond the bounds; ONNX files with one initializer (9 data types, raw and typed "
                "data, negative / huge / wrapping dims); whole-file mutations of valid files. Release and debug builds.")
    ctx.trusted += ["modelled, not verified: Tensor::try_from_data (checked version, C06/F4), ArcSlice::from_bytes / cast_slice alignment "
                    "and length rules, flatbuffers accessors",
                    "not modelled (exercised only): FlatBuffers verifier, graph/operator construction, optimizer, external data files, mmap",
                    "harness file builders (flatbuffers crate, the harness' protobuf writer) and worker-process isolation"]
    ctx.assumptions += ["64-bit target (usize = u64)", "buffers hold at most isize::MAX bytes"]
    ctx.audit(GROUP)
    probs = ctx.pins(GROUP, PINS)
    for p in ctx.pins_rec:
        if len(p["text"]) >= 200:
            p["text"] = p["text"][:60] + " ... (whole file scanned by checks/C05.py)"
    if probs:
        raise vf.CheckerBroken("source pins no longer match: " + "; ".join(probs))
    failed = ctx.prove(GROUP, "Props_C05", THEOREMS)
    n = int(os.environ.get("VERIF_CASES", ctx.n(300, 6000)))
    for profile in ("release", "debug"):
        bindir = ctx.harness(GROUP, profile=profile, bins=["c05"], hooks=False)
        cases = ctx.gen_exec(bindir, "c05", n, extra_gen=(["skip=hdr"] if profile == "debug" else []),
                             inputs=ctx.replay_inputs(), timeout=2400)
        for c in cases:
            c["tag"] = ("dbg-" if profile == "debug" else "rel-") + c["tag"]
        ctx.correspond("load-" + profile, GROUP, REQ, cases, show="show", shard=400,
                       fn_name="Loader.ModelC05 (Header::from_buf, rten_loader / onnx_loader constant loading via Model::load, %s build)" % profile)
    if failed and not ctx.violations:
        ctx.proof_broken(failed, "all correspondence cases of this run")
