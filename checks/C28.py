"""C28 -- BPE merging matches the reference merge algorithm (DESIGN.md section 2, C28)."""
import os
import vf

META = {
    "claimed": True,
    "text": ("Coq theorems over a Gallina model of rten-text/src/models/bpe.rs: bpe_merge (windows/min_by_key + index loop with "
             "in-place removal) never panics, needs at most |piece| rounds, and returns exactly the result of the GPT-2 reference "
             "procedure (lowest-ranked adjacent pair present, all occurrences replaced left to right, until none applies), for "
             "every merge table and piece, with no size bound; build_merge_map gives a pair the rank of its LAST listing; the "
             "ids Bpe::encode_piece produces are the vocabulary ids of the pieces the string-level reference produces whenever "
             "the supplied vocabulary does not share ids (also with an end-of-word suffix). The model is tied to the code by "
             "running Bpe::new + Tokenizer::encode and the model on the same tables and words (all tables of <=2 merges over "
             "{a,b,c} x all words up to length 4 (quick) / 5 (thorough); thorough: all 3-merge tables up to renaming of the alphabet "
             "x words <= 4; tables [p,q,p]; sampled 3-4-merge tables, random trained tables with "
             "multi-byte symbols, supplied/generated vocabularies, duplicate and out-of-order entries, malformed tables) and "
             "comparing ids inside Coq; the implementation's own ids are checked against the string-level reference there too."),
    "note": ("Trusted: Coq kernel; the correspondence sample (a test, not a proof); FxHashMap modelled as a finite map; ranks are "
             "u32 (theorems assume < 2^32 merges); vocabularies in which two strings share an id are outside the theorem "
             "(token_id_to_encoded_bytes is then hash-order dependent). Finding F40 (fixed, 00aef3d): id+256 end-of-word layout assumption."),
    "technique": "Coq proof (loop invariants, induction on the merge table and on fuel, injective-map transport) + model/implementation correspondence",
}
GROUP = "bpe"
REQ = "From RV Require Import Prelude.\nFrom Bpe Require Import ModelBpe ModelC28.\nOpen Scope N_scope."
THEOREMS = ["C28_merge_pass_eq", "C28_bpe_merge_eq_reference", "C28_bpe_merge_terminates",
            "C28_reference_is_fixpoint", "C28_build_merge_map_rank", "C28_encode_piece_eq_reference_str",
            "C28_default_vocab_wellformed", "C28_oracle_sound", "C28_nonvacuous"]


def main(ctx):
    ctx.rule = ("one case = one tokenizer configuration (merge table, vocabulary, suffix) x a set of words: every word over the "
                "alphabet up to the length bound plus explicit words; exhaustive tables over {a,b,c} with operands drawn from "
                "symbols and earlier results; a case is non-trivial when Bpe::new succeeds and the table is not empty; "
                "distinct = distinct input lines")
    ctx.trusted += ["modelled, not verified: rustc_hash::FxHashMap (finite map), Iterator::min_by_key (first minimum), "
                    "Vec::remove, slice::windows",
                    "Bpe is reached through BpeOptions/Bpe::new, Tokenizer::new(model, default) without pre-tokenizer, "
                    "Tokenizer::encode(text, None), Model::get_token_str"]
    ctx.assumptions += ["merge list shorter than 2^32 entries (ranks are u32)",
                        "supplied vocabularies map distinct strings to distinct ids (theorem C28_encode_piece_eq_reference_str)"]
    ctx.audit(GROUP)
    failed = ctx.prove(GROUP, "Props_C28", THEOREMS)
    ok, out = ctx.make(GROUP, ["ModelC28.vo"])          # the case record / agree / prop_ok (no proofs inside)
    if not ok:
        raise vf.CheckerBroken("ModelC28.v does not compile: " + out[-1500:])
    bindir = ctx.harness(GROUP, profile="release", bins=["c28"])
    cases = ctx.gen_exec(bindir, "c28", ctx.n(60, 800), inputs=ctx.replay_inputs())
    lim = int(os.environ.get("VERIF_BPE_LIMIT", "0"))   # debugging aid (mutation experiments): stratified subset
    if lim and len(cases) > lim:
        cases = cases[:8] + cases[8::max(1, (len(cases) - 8) // lim)]   # the corpus lines come first and are always kept
    ctx.correspond("bpe_merge/encode_piece", GROUP, REQ, cases, show="show", shard=ctx.n(12, 16),
                   fn_name="Bpe.ModelBpe.{bpe_new,encode_piece,bpe_merge}")
    if failed and not ctx.violations:
        ctx.proof_broken(failed, "all correspondence cases of this run")
