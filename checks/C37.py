"""C37 -- Block-quantized matrix multiplication equals dequantize-then-multiply (DESIGN.md section 2, C37)."""
import os

import vf

META = {
    "claimed": True,
    "text": ("Coq theorems over an ARBITRARY commutative ring (scales and LHS) about a Gallina model of rten-gemm's 4-bit "
             "block-quantized matmul (block_quant.rs: BlockQuantizedMatrix layout and nibble order, VecDotMatrix's SIMD loop over "
             "vblocks with 1/2/4/8 scales per vblock or several vblocks per block and its scalar tail with separate scale "
             "indexing; packing.rs: BlockQuantizedMatrixPacker with zero-contribution padding columns): for every block size, "
             "vector width, block count and shape the scale applied to each element is the scale of its block, hence "
             "BlockQuantizedGemm (Float mode) = dequantize-then-GEMM, and the GEMM path (GemmInputB::BlockQuantized) is the C16 "
             "driver with B := dequantized matrix, i.e. alpha*A*dequant(B) + beta*C + bias. Tie: BlockQuantizedGemm (Float) and "
             "GemmExecutor with a block-quantized RHS for every f32 kernel are run on integer LHS and scales in "
             "{1/4,1/2,1,2,4,-1,0} (f32 exact) for all block sizes 16..256 and 0..19 blocks incl. partial vblocks, and compared "
             "EXACTLY with the Z instance inside Coq. The Int8 compute mode (LHS quantised to 8 bits per block, approximate by "
             "design) is only exercised: its output must lie within the quantisation-error bound sum_blocks bs*8*|scale|*amax/254 "
             "of the specification (search only). Float rounding is not modelled. The operator-level wrapper (MatMulNBits) rejects "
             "zero points and K that is not a multiple of the block size, so those do not reach this code."),
    "note": ("Trusted: Coq kernel; correspondence sample; SIMD nibble unpack/interleave/extend sequence (modelled as 'element 2b "
             "= low nibble of byte b, 2b+1 = high nibble', exercised exactly); only the ISA chosen by SimdOp::dispatch on this "
             "machine (AVX-512: 128 elements per vector) is executed -- VecDotMatrix is private to its module, the theorem covers "
             "32/64/128. By reading (outside this property's 4-bit scope): BlockQuantizedMatrix::new accepts bits = 8 but the "
             "packer decodes two rows per byte regardless."),
    "technique": "Coq proof (Euclidean-division reasoning on vblock/block indices, reuse of the C16 driver theorem) + exact "
                 "model/implementation correspondence on exactly-representable inputs",
}
GROUP = "gemm"
REQ = "From RV Require Import Prelude.\nFrom Gemm Require Import GemmModel BlockQuant ModelC16 ModelC37.\nOpen Scope N_scope."
THEOREMS = ["C37_scale_index_correct", "C37_bq_gemm_eq_dequant_gemm", "C37_packer_delivers_dequantized",
            "C37_gemm_path_eq_dequant_gemm", "C37_shapes_ok", "C37_nonvacuous"]


def main(ctx):
    ctx.rule = ("BlockQuantizedGemm Float and Int8 modes: every block size in {16,32,64,128,256} x 0..9 (quick) / 0..19 (thorough) "
                "blocks, LHS rows with whole quantisation blocks forced to zero (first/middle/last/all; a non-finite Int8-mode output is a "
                "failure), GemmExecutor route also with block sizes 256/512/1024 x 1-2 blocks, "
                "blocks (K <= 1024) plus seeded random shapes (1-3 LHS rows, 0-39 columns); GemmExecutor + BlockQuantized RHS for "
                "each f32 kernel: rows/cols around mr/nr, 0..4 blocks or K in {256,512,768}, alpha/beta in {0,1,-1,2}, bias, 5 LHS "
                "layouts, NaN-prefilled output for beta=0; non-trivial = output non-empty")
    ctx.trusted += ["SIMD nibble unpacking (and/shift/interleave/extend): hand model of the element order",
                    "Int8 compute mode: compared against an error bound only (approximate by design)"]
    ctx.audit(GROUP)
    failed = ctx.prove(GROUP, "Props_C37", THEOREMS)
    bindir = ctx.harness(GROUP, profile="release", bins=["c37"])
    cases = ctx.gen_exec(bindir, "c37", int(os.environ.get('VERIF_N', ctx.n(30, 100))), inputs=ctx.replay_inputs())
    shard = max(4, -(-len(cases) // vf.NCPU))
    ctx.correspond("block-quantized-matmul-vs-dequant-gemm", GROUP, REQ, cases, show="show", agree="always",
                   prop_ok="prop_ok", shard=shard, fn_name="Gemm.BlockQuant.dequant + gemm_spec vs BlockQuantizedGemm / GemmExecutor")
    if os.environ.get('VERIF_FAST') == '1':
        if failed and not ctx.violations:
            ctx.proof_broken(failed, 'all correspondence cases of this run')
        return
    # Informational: today's code (scale indexing, packer) evaluated as a model.
    dis, _, err = ctx.coq_eval_cases(GROUP, REQ, [c["term"] for c in cases if "int8mode" not in c["tag"]], "agree", "always", shard, tag="det")
    ctx.extra["code_model_disagreements"] = (len(dis) if not err else "evaluation error: " + str(err)[:200])
    ctx.extra["int8_compute_mode_cases_exercised"] = sum(1 for c in cases if "int8mode" in c["tag"])
    if failed and not ctx.violations:
        ctx.proof_broken(failed, "all correspondence cases of this run")
