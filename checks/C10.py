"""C10 -- Shape inference never contradicts execution (DESIGN.md section 2, C10)."""
import collections
import hashlib
import os
import re
import vf

META = {
    "claimed": True,
    "text": ("Coq theorems over a Gallina model of rten-shape-inference (SymTensor, UnaryOp, BinaryOp broadcasting, ReductionOp, "
             "symbolic_binary_op with Add/Sub/Mul/Div/Equal, Where, Identity, Cast, Neg, Shape, Size, Gather, Concat, Squeeze, Unsqueeze, "
             "Transpose, MatMul, Gemm, ConstantOfShape, Range) and Z-valued reference semantics of these operators. PROVED for all "
             "symbolic inputs, assignments and consistent concrete inputs (infer_sound_<op>: every Value and every expression without "
             "generated symbols evaluates to the executed dimension/element, ranks exact): unary-like operators, Identity, Cast, Neg, "
             "Shape, Transpose, Gemm, all reductions (Reduce*, ArgMax/ArgMin; code with fix F72), the broadcasting rule BinaryOp and "
             "MatMul (under the hypothesis excluding the known finding F70), and Add/Sub/Mul/Div/Equal on shape-carrying scalars and "
             "vectors incl. the one-element broadcasting of symbolic_binary_op (Equal for C11's fixed SymExpr::range; refuted for the "
             "old one), Gather (vector elements by constant indices + shape rule), and MaxPool/AveragePool (output_size arithmetic incl. the "
             "ceil_mode cap: counts window positions, the built expression evaluates to it, NCHW with explicit pads). `_refuted` witnesses for every finding (F5 Equal, F70, F71 Where, F72 reductions, F77 Squeeze). NOT proved, "
             "only modelled and tied: Where, Concat, Squeeze, Unsqueeze, ConstantOfShape, Range, Size. On every run: "
             "(a) model vs the real inference rules and reference semantics vs the real operators on generated cases; (b) for ALL "
             "operators offering inference (deserialised by the real ONNX registry): infer, instantiate under 8 assignments (0, 1, "
             "negatives), execute, and check every claim with the Coq evaluator -- the only coverage (a test) for operators without a "
             "model. Findings: 4 repaired by fix commits of this group (Where, reductions, Slice, Squeeze), 2 executor defects found here "
             "(div/pow result rank) and F5 (Equal via SymExpr::range) repaired on main by the ops and C11 groups, 5 recorded as known (F70 Broadcast(0,1) evaluates to max, F73 symbolic Range "
             "length, F75 symbolic Slice size, F76 SkipLayerNormalization placeholders, F78 Reshape with symbolic 0/-1: pinned by unit "
             "tests or owned by C11's model; F82 ceil-mode pooling with end padding > kernel: executor defect found by the small-scope "
             "pooling enumeration, fix committed, known until it is on main) and reported as KNOWN-FINDING only for instantiations inside the recorded class."),
    "note": ("Trusted: Coq kernel; the correspondence sample (a test); the hook and harness; exec_ref (tied to the kernels only by the "
             "sample). Consistency hypotheses: input expressions evaluate without i32 overflow, positive symbols >= 0, Broadcast "
             "operands compatible; conclusions use release-build i32 evaluation; expressions with SymbolGen symbols make no claim. "
             "Operators not exercised at all are listed in the evidence (attention, MatMulNBits, DFT/STFT, control flow, random ops)."),
    "technique": ("Coq proof per modelled operator (infer_sound_<op>) + model/implementation correspondence + "
                  "infer/instantiate/execute differential over all operators offering inference"),
}
GROUP = "shapeinfer"
REQ = ("From Coq Require Import String.\nFrom RV Require Import Prelude.\nFrom SymExpr Require Import SymExprModel.\n"
       "From ShapeInfer Require Import ShapeInferModel.\nOpen Scope Z_scope.")
THEOREMS = ["C10_infer_sound_Unary",
            "C10_infer_sound_Identity",
            "C10_infer_sound_Cast",
            "C10_infer_sound_Neg",
            "C10_infer_sound_Shape",
            "C10_infer_sound_Transpose",
            "C10_infer_sound_Gemm",
            "C10_infer_sound_Binary",
            "C10_infer_sound_MatMul",
            "C10_F70_Binary_refuted",
            "C10_infer_sound_Reduce",
            "C10_F72_Reduce_empty_axes_refuted",
            "C10_F72_Reduce_noop_refuted",
            "C10_elem_sound_Add",
            "C10_elem_sound_Sub",
            "C10_elem_sound_Mul",
            "C10_elem_sound_Div",
            "C10_elem_sound_Div_exact",
            "C10_elem_sound_Equal",
            "C10_infer_sound_Add",
            "C10_infer_sound_Sub",
            "C10_infer_sound_Mul",
            "C10_infer_sound_Div",
            "C10_infer_sound_Equal",
            "C10_infer_sound_Gather",
            "C10_pool_out_counts_windows",
            "C10_out_size_expr_eval",
            "C10_infer_sound_Pool",
            "C10_F5_equal_fold_refuted",
            "C10_F5_Equal_refuted",
            "C10_F71_Where_refuted",
            "C10_F77_Squeeze_refuted",
            "C10_oracle_reject_is_counterexample",
            "C10_nonvacuous"]
# known-finding classes: id -> (Coq predicate that is FALSE when the case has a failing instantiation in
# the class, operators the class is about (None = any))
CLASSES = {
    "F70": ("nohit_F70", None),
    "F73": ("nohit_F73", None),
    "F75": ("nohit_F75", None),
    "F76": ("nohit_F76", None),
    "F78": ("nohit_F78", None),
    "F5": ("nohit_F5", None),
    "F82": ("nohit_F82", None),
}


def case_op(c):
    p = c["tag"].split(":")
    return p[1] if len(p) > 1 else c["tag"]


def registry_ops():
    src = open(os.path.join(vf.REPO, "src/op_registry/onnx_registry.rs")).read()
    body = src[src.index("pub fn with_all_ops()"):]
    body = body[:body.index("\n        reg\n")]
    names = []
    for m in re.finditer(r"register_op!\(\s*([^)]*?)\s*\);", body, re.S):
        args = [a.strip() for a in m.group(1).split(",")]
        args = [a for a in args if not a.startswith("feature")]
        if args[0].startswith('"'):
            dom = args[0].strip('"')
            name = args[1].strip('"') if len(args) > 1 else ""
            if len(args) == 2 and not args[1].startswith('"'):
                name = args[1]
            names.append(name + "@" + dom if dom != "ai.onnx" else name)
        elif re.match(r"^[A-Za-z]\w*$", args[0]):
            names.append(args[0])
    return sorted(set(names))


def main(ctx):
    ctx.rule = ("per case: one operator (deserialized by the real ONNX registry) + symbolic inputs (scalars/vectors of expressions "
                "over <=4 symbols incl. negations, sums, products, i32 extremes; shapes with fixed dims 0..5, positive symbols, "
                "n+1, 2*n; unknown tensors; omitted optional inputs) + attributes; 2/3 of the cases target the modelled operators, "
                "1/3 the table of all other operators with inference; each case is instantiated under 7 assignments (all 0, all 1, "
                "all 2, two mixed 0..5, two with negatives for unconstrained symbols) and the real operator is executed on concrete "
                "tensors; a case is non-trivial when the operator offers inference")
    ctx.trusted += ["rten::verif::shapeinfer hook (operator construction through OnnxOpRegistry::read_op, Operator::as_infer_shapes, "
                    "Operator::run) and the harness's concrete-tensor construction",
                    "reference semantics of the modelled operators (coq/shapeinfer/ShapeInferModel.v exec_ref) are tied to the real "
                    "kernels only by the correspondence sample",
                    "operators without a Coq model are covered only by the infer/instantiate/execute differential (a test)"]
    ctx.assumptions += ["input expressions evaluate without i32 overflow; symbols declared positive are >= 0 (pos_ok); "
                        "Broadcast operands compatible (bcast_ok)",
                        "claims are checked with the i32 arithmetic of a release build (evalw)",
                        "expressions containing symbols generated by SymbolGen make no claim"]
    ctx.audit(GROUP, "symexpr")
    failed = ctx.prove(GROUP, "Props_C10", THEOREMS) if THEOREMS else []
    ok, out = ctx.make(GROUP, ["ShapeInferModel.vo"])
    if not ok:
        raise vf.CheckerBroken("model does not compile: " + out[-800:])
    bindir = ctx.harness(GROUP, profile="release", bins=["c10"])
    cases = ctx.gen_exec(bindir, "c10", ctx.n(700, 6000), inputs=ctx.replay_inputs())
    bad = [c for c in cases if c["tag"].startswith(("trivial-loadfail", "trivial-harness-panic"))]
    if bad and not ctx.replay_path:
        raise vf.CheckerBroken("harness could not build %d case(s), e.g. %s" % (len(bad), bad[0]["input"][:200]))

    # bookkeeping (as ctx.correspond does)
    for c in cases:
        ctx.evals += 1
        t = re.sub(r":(ok|err|panic):(ran|norun)$", "", c["tag"])
        ctx.hist[t] = ctx.hist.get(t, 0) + 1
        if not c["tag"].startswith("trivial"):
            ctx.distinct.add(hashlib.sha1(c["input"].encode()).hexdigest())
    for c in cases[:3]:
        ctx.samples.append({"check": "infer/execute", "input": c["input"][:400], "tag": c["tag"]})
    terms = [c["term"] for c in cases]
    # which Div closure does the tree under check have? (C01's fix "only folds exact quotients")
    bsrc = open(os.path.join(vf.REPO, "rten-shape-inference/src/ops/binary.rs")).read()
    divx = "checked_rem" in bsrc[bsrc.index("impl InferShapes for Div"):bsrc.index("impl InferShapes for Equal")]
    ctx.pins_rec.append({"name": "div_folds_exact_quotients_only", "file": "rten-shape-inference/src/ops/binary.rs", "text": str(divx)})
    agree = "agree_dx" if divx else "agree"
    dis, pf, err = ctx.coq_eval_cases(GROUP, REQ, terms, agree, "prop_ok", shard=150, tag="main")
    if err:
        raise vf.CheckerBroken("model evaluation failed: %s" % err)
    ctx.corr.append({"name": "infer/execute", "cases": len(cases), "disagree": len(dis), "property_failures": len(pf)})
    ctx.log("correspondence: %d cases, %d model/impl disagreements, %d property failures" % (len(cases), len(dis), len(pf)))

    def known_status(fid):
        return ctx._is_known(fid)

    reported = 0
    known_seen = collections.OrderedDict()
    if pf:
        sub = [cases[i] for i in pf]
        st = [c["term"] for c in sub]
        flags = " ".join("true" if known_status(f) else "false" for f in ("F70", "F73", "F75", "F76", "F78", "F5", "F82"))
        excl = "(prop_ok_excl_k %s)" % flags
        unexplained, _, err = ctx.coq_eval_cases(GROUP, REQ, st, excl, "nohit_F5", shard=150, tag="excl")
        if err:
            raise vf.CheckerBroken("model evaluation failed (excl): %s" % err)
        hits = {}
        names = list(CLASSES)
        for k in range(0, len(names), 2):
            a = CLASSES[names[k]][0]
            b = CLASSES[names[k + 1]][0] if k + 1 < len(names) else a
            ha, hb, err = ctx.coq_eval_cases(GROUP, REQ, st, a, b, shard=150, tag="hit%d" % k)
            if err:
                raise vf.CheckerBroken("model evaluation failed (hits): %s" % err)
            hits[names[k]] = set(ha)
            if k + 1 < len(names):
                hits[names[k + 1]] = set(hb)
        un = set(unexplained)
        for j, c in enumerate(sub):
            why = None
            if j in un:
                why = "not in any recorded known-finding class"
            else:
                # explained by prop_ok_excl (which excludes only classes recorded as known): attribute it
                for fid in CLASSES:
                    if j in hits.get(fid, ()) and known_status(fid):
                        known_seen.setdefault(fid, c["input"])
            if why and reported < 3:
                detail = ctx.coq_eval_show(GROUP, REQ, "show (%s)" % c["term"])
                ctx.violation({"kind": "property-failure", "check": "infer/execute", "input": c["input"], "coq_case": c["term"],
                               "explain": "inference claims a rank, dimension or element that the executed operator does not produce "
                                          "under a consistent assignment (oracle prop_ok); " + why,
                               "model_says": detail[:3000]})
                reported += 1
    for fid in known_seen:
        ctx.known(fid)
    ctx.extra["known_finding_examples"] = dict(known_seen)
    only_dis = [i for i in dis if i not in set(pf)]
    unexplained_dis = []
    for i in only_dis:
        if case_op(cases[i]) == "Equal" and cases[i]["tag"].startswith("model:") and known_status("F5"):
            if "F5" not in known_seen:
                known_seen["F5"] = cases[i]["input"]
                ctx.known("F5")
            continue
        unexplained_dis.append(i)
    if unexplained_dis and reported == 0:
        c = cases[unexplained_dis[0]]
        detail = ctx.coq_eval_show(GROUP, REQ, "show (%s)" % c["term"])
        ctx.violation({"kind": "correspondence-broken", "check": "infer/execute",
                       "broken": "correspondence between ShapeInfer.ShapeInferModel.{infer, exec_ref} and the implementation",
                       "first_disagreeing_input": c["input"], "coq_case": c["term"], "model_says": detail[:3000],
                       "disagreements": len(unexplained_dis),
                       "explain": "model and implementation disagree on %d case(s) but the implementation's outcome satisfies the "
                                  "property oracle on them; the theorems no longer transfer to the code" % len(unexplained_dis)},
                      no_input=True)

    # coverage of the operator registry
    per = collections.defaultdict(lambda: [0, 0])
    for c in cases:
        if c["tag"].startswith("trivial-noinfer"):
            continue
        op = case_op(c)
        per[op][0] += 1
        if c["tag"].endswith(":ran"):
            per[op][1] += 1
    try:
        reg = registry_ops()
        rc, out = ctx.run_bin(os.path.join(bindir, "c10"), ["hasinfer"] + reg)
        info = dict(l.split("\t") for l in out.split("\n") if "\t" in l)
    except Exception as ex:  # the registry source moved: report, do not fail the property
        reg, info = [], {"error": str(ex)}
    exercised = set(per)
    not_ex = [o for o in reg if o.split("@")[0] not in exercised and info.get(o) != "noinfer"]
    never_ran = sorted(o for o, (n, r) in per.items() if r == 0)
    ctx.extra["operator_coverage"] = {"registered": len(reg), "exercised_with_inference": len(exercised),
                                      "modelled_in_coq": sorted({case_op(c) for c in cases if c["tag"].startswith("model:")}),
                                      "differential_only": sorted({case_op(c) for c in cases if c["tag"].startswith("diff:")}),
                                      "registered_but_not_exercised": not_ex,
                                      "no_inference_offered": sorted(o for o in reg if info.get(o) == "noinfer"),
                                      "exercised_but_never_executed_successfully": never_ran}
    ctx.log("operators: %d registered, %d exercised, %d not exercised: %s" % (len(reg), len(exercised), len(not_ex), " ".join(not_ex)))
    if failed and not ctx.violations:
        ctx.proof_broken(failed, "all correspondence cases of this run")
