"""C36 -- Contour tracing and drawing stay on the image (DESIGN.md section 2, C36)."""
import vf

META = {
    "claimed": True,
    "text": ("Drawing (proved for ALL inputs over a Gallina model of rten-imageproc/src/drawing.rs with Z coordinates): the line iterator "
             "BreshamPoints yields only points in the bounding box of its end points, starts at the start point, reaches the end point, "
             "is 8-connected and takes max(|dx|,|dy|) steps (error-term invariant); draw_line (width 1) never panics and writes only "
             "pixels inside the image and inside the line's bounding box for ANY end points and any image size incl. empty; fill_rect "
             "writes exactly rect /\\ image; stroke_rect writes only the border ring of rect /\\ image; draw_polygon (width 1) writes only "
             "inside the image and inside the bounding box of an edge. Contours (bounded theorem, NOT the general Suzuki-Abe correctness): "
             "for ALL binary masks up to 4x4 (every height and width 0..4: 74 963 masks, both RetrievalModes; vm_compute over the full "
             "enumeration lifted with forallb_forall, enumeration proved complete) border following terminates without exhausting its "
             "fuel or panicking, every contour point is a foreground pixel with a background/outside pixel among its 8 neighbours, and "
             "every 8-connected foreground component has a contour that stays inside it and passes through all its row/column-extreme "
             "pixels. Tie: model and implementation run on the same inputs on every run; the alarm is the property oracle applied to the "
             "implementation's own output (written-pixel set inside image /\\ shape bounds, no panic, guard band untouched; contours "
             "valid per the independent checker, External mode: every component not nested in a hole). Wide lines (width > 1, f32 "
             "RotatedRect corners + FillIter) and Painter are exercised against the oracle only."),
    "note": ("Trusted: Coq kernel; the correspondence sample (a test, not a proof); rten-tensor indexing/slicing (bounds-checked). "
             "Z model is exact for |coordinate| <= 2^30, widths <= 2^30, image dims <= 2^30 (no i32 overflow); inputs beyond are not "
             "modelled. Four defects were repaired first (F50-F53: fill_rect/stroke_rect/draw_line panics or off-shape pixels for "
             "off-image shapes). Drift of the code from the deterministic model that keeps the property is reported as a number, not an alarm."),
    "technique": "Coq proof (loop invariant on the Bresenham error term; bounded-exhaustive vm_compute with reflection for contours) + model/implementation correspondence",
}
GROUP = "imageproc"
REQ = "From RV Require Import Prelude.\nFrom ImageProc Require Import Draw DrawCases Contours CaseCodec.\nOpen Scope Z_scope."
REQ_D = REQ + "\nNotation case := dcase (only parsing)."
REQ_C = REQ + "\nNotation case := ccase (only parsing)."
THEOREMS = ["C36_bresham_in_bbox", "C36_bresham_endpoints", "C36_draw_line_in_image", "C36_fill_rect_writes",
            "C36_stroke_rect_writes", "C36_draw_polygon_in_image", "C36_model_satisfies_oracle", "C36_oracle_spec",
            "C36_nonvacuous_draw",
            "C36_contours_ok_le_4x4", "C36_contours_checker_sound", "C36_nonvacuous_contours"]


def correspond_once(ctx, name, group, req, cases, agree, prop_ok, show, shard, fn_name):
    """C23 pattern with ONE model evaluation: the alarm is `prop_ok` on the implementation's outcome
    (ctx.correspond with agree = prop_ok), the deterministic-model comparison `agree` is evaluated
    in the same Coq pass and only reported as a number."""
    terms = [c["term"] for c in cases]
    dis, pf, err = ctx.coq_eval_cases(group, req, terms, agree, prop_ok, shard, tag=name[:8].replace("-", ""))
    if err:
        raise vf.CheckerBroken("model evaluation failed for %s: %s" % (name, err))
    orig = ctx.coq_eval_cases
    ctx.coq_eval_cases = lambda *a, **k: (list(pf), list(pf), None)   # results of the pass above
    try:
        ctx.correspond(name, group, req, cases, agree=prop_ok, prop_ok=prop_ok, show=show, shard=shard, fn_name=fn_name)
    finally:
        ctx.coq_eval_cases = orig
    return len([i for i in dis if i not in set(pf)])


def main(ctx):
    ctx.rule = ("drawing: seeded random fill_rect/stroke_rect/draw_line/draw_polygon/Painter::draw_polygon calls on images 0..12 x 0..12 "
                "(view inside a guard band), coordinates inside / near / far outside / huge (+-2^30; wide lines bounded to +-40 around "
                "the image), degenerate and inverted shapes, widths 0,1,2,3,..; fixed corpus of the F50-F53 inputs first. "
                "contours: all masks up to 3x3 (quick) / 3x4 and 4x3 (thorough) exhaustively in both modes, random 3x4/4x3/4x4/2x6, "
                "random and structured masks up to 12x12 (noise at several densities, nested rings, blobs with holes, diagonals, "
                "dense-with-holes). non-trivial = not an empty mask; distinct = distinct input lines")
    ctx.trusted += ["rten-tensor NdTensorViewMut indexing/slicing and Polygons storage: used, not verified",
                    "draw_line width>1 (RotatedRect f32 corners, Polygon::fill_iter) and Painter: oracle only, no model"]
    ctx.assumptions += ["|coordinates| <= 2^30, stroke/line widths <= 2^16, image dims <= 2^30: i32 arithmetic does not overflow (model uses Z)",
                        "wide lines/polygons: coordinates within 40 pixels of the image (fill_iter visits the whole bounding box)"]
    ctx.audit(GROUP)
    failed = ctx.prove(GROUP, "Props_C36", THEOREMS, timeout=3000)
    bindir = ctx.harness(GROUP, profile="release", bins=["c36"], hooks=False)
    cases = ctx.gen_exec(bindir, "c36", ctx.n(400, 3000), inputs=ctx.replay_inputs())
    draw = [c for c in cases if c["input"].startswith("D|")]
    cont = [c for c in cases if c["input"].startswith("C|")]
    # The alarm: the implementation's own outcome must satisfy the property oracle.
    # Informational: does the code still coincide with the deterministic models the theorems are about?
    drift = {}
    if draw:
        drift["drawing"] = correspond_once(ctx, "drawing-stays-in-image-and-shape", GROUP, REQ_D, draw, "agree_draw",
                                           "prop_ok_draw", "show_draw", 400, "ImageProc.DrawCases.prop_ok_draw")
    if cont:
        drift["contours"] = correspond_once(ctx, "contours-valid", GROUP, REQ_C, cont, "agree_contours",
                                            "prop_ok_contours", "show_contours", 500, "ImageProc.Contours.prop_ok_contours")
    ctx.extra["deterministic_model_disagreements"] = drift
    if any(v for v in drift.values()):
        ctx.log("note: deviations from the deterministic models (property oracle still decides): %s" % drift)
    if failed and not ctx.violations:
        ctx.proof_broken(failed, "all correspondence cases of this run")
