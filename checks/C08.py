"""C08 -- The overlap check never admits aliasing layouts (DESIGN.md section 2, C08)."""
import vf

META = {
    "claimed": True,
    "text": ("Coq theorems over a Gallina model of rten-tensor/src/overlap.rs: accepted => injective index->offset map for all "
             "shapes/strides (exact arithmetic, and wrapping usize arithmetic whenever min_data_len fits usize); every layout derived "
             "from a contiguous one by permute/slice(positive step)/index_axis/insert-axis is accepted. The model is tied to the code "
             "by running model and the public constructors (DynLayout/NdLayout::from_shape_and_strides) on the same layouts "
             "(exhaustive small scope + seeded random incl. extreme usize values) and comparing inside Coq; the implementation's own "
             "verdicts are additionally checked against a brute-force injectivity oracle, which yields the concrete replay input."),
    "note": ("Trusted: Coq kernel; the correspondence sample (a test, not a proof); SmallVec and sort_unstable modelled as insertion "
             "sort over a total antisymmetric order. The release-mode theorem assumes min_data_len fits usize (C06's obligation)."),
    "technique": "Coq proof (induction over the sorted dimension list, permutation transport) + model/implementation correspondence",
}
GROUP = "tensor"
REQ = "From RV Require Import Prelude.\nFrom Tensor Require Import Overlap.\nOpen Scope N_scope."
THEOREMS = ["C08_no_overlap_injective", "C08_release_mode_injective",
            "C08_derived_layouts_accepted", "C08_accepted_if_some_order_steps", "C08_nonvacuous",
            "C08_oracle_counterexample_is_genuine"]


def main(ctx):
    ctx.rule = ("exhaustive shapes<=4 x strides<=12 for rank<=2 (quick) / rank<=3 (thorough) plus seeded random "
                "layouts of rank<=6 (derived-from-contiguous, perturbed strides, extreme usize values); a case is "
                "non-trivial when no dimension is empty; distinct = distinct (shape,strides)")
    ctx.trusted += ["modelled, not verified: SmallVec, sort_unstable on (usize,usize) tuples (modelled as insertion sort; "
                    "results coincide because the order is total and antisymmetric)",
                    "the check is reached through DynLayout/NdLayout::from_shape_and_strides(.., DisallowOverlap)"]
    ctx.audit(GROUP)
    failed = ctx.prove(GROUP, "Props_C08", THEOREMS)
    bindir = ctx.harness(GROUP, profile="release", bins=["c08"])
    cases = ctx.gen_exec(bindir, "c08", ctx.n(3000, 60000), inputs=ctx.replay_inputs())
    ctx.exhaustive = False
    ctx.correspond("may_have_internal_overlap", GROUP, REQ, cases, show="show",
                   fn_name="Tensor.Overlap.may_have_internal_overlap (release/wrapping mode)")
    if failed and not ctx.violations:
        ctx.proof_broken(failed, "all correspondence cases of this run")
