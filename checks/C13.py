"""C13 -- In-place and commuted operator execution match normal execution (DESIGN.md section 2, C13)."""
import os
import re
import vf

META = {
    "claimed": True,
    "text": ("partial(kernels sampled; decision logic proved). PROVED (Coq, all inputs, closed under the global context): over a Gallina "
             "model of src/ops/binary_elementwise.rs -- broadcast_shapes, Layout::can_broadcast_to / can_run_binary_op_in_place, "
             "fast_broadcast_cycles_repeats, binary_op, binary_commutative_op, binary_op_in_place and the run_typed_op_in_place! dispatch -- "
             "(1) the in-place decision is exact: can_run_in_place a b <-> broadcast_shapes a b = Some a; (2) whenever the cycles/repeats "
             "fast path answers Some(c, r), cycling c times over each element repeated r times IS numpy-style broadcasting of the contiguous "
             "operand; (3) for EVERY kernel f, all shapes/elements and any contiguity of either operand, run_in_place on the owned first "
             "operand returns exactly what the normal run returns (tensor or shape error), none of the assert!s can fire; (4) for commutative "
             "f either operand may be the owned one. EXERCISED, not proved: the kernels and every other operator. On every run a two-run "
             "differential on the real code -- for EVERY operator the ONNX registry registers (list re-read from src/op_registry/onnx_registry.rs) "
             "plus the optimizer-only fused ones and TransformInputs wrappers that reports in_place_inputs() or is_commutative(): Operator::run on "
             "contiguous inputs vs Operator::run_in_place on owned copies of the designated inputs (exact, spare Vec capacity, permuted-owned, "
             "strided-owned, with_capacity/append), other inputs as contiguous/permuted/stepped/offset/broadcast views, every input position for "
             "commutative operators, swapped-operand runs; shape, dtype and element BITS compared inside Coq. Add/Sub/Mul on i32 and integer-valued "
             "f32 are additionally compared with the Coq model on all shape pairs of rank<=2 (quick) / <=3 (thorough) over dims 0..3."),
    "note": ("Trusted: Coq kernel; the harness (constructs operators through the registry's own reader via the cfg(rten_verif) hook src/verif/ops.rs); "
             "the differential is a test, as strong as its generators (histogram in the evidence). fast_broadcast_cycles_repeats itself is not "
             "observable (pub fn in a private module): its model is tied only through the results of Add/Sub/Mul. GRU/LSTM/If/Loop/MatMulNBits "
             "and feature-gated operators (fft, random) are not constructed; "
             "none of them is in-place capable. KNOWN FINDING F61: Attention / MultiHeadAttention / GroupQueryAttention outputs can differ by <= 2 ulp "
             "when the owned KV cache is strided (GEMM summation order); such cases are classified inside Coq (close_ok) and reported as KNOWN-FINDING, "
             "any larger or structural difference is still a VIOLATION."),
    "technique": "Coq proof (induction over shapes; list algebra of cycle/repeat/chunks) + two-run differential on the implementation evaluated in Coq + model/implementation correspondence for Add/Sub/Mul",
}
GROUP = "ops"
REQ = ("From RV Require Import Prelude.\nFrom Coq Require Import String.\nFrom Ops Require Import InPlace InPlace_cases.\n"
       "Open Scope string_scope.\nOpen Scope N_scope.")
THEOREMS = ["C13_in_place_shape_ok", "C13_in_place_decision_exact", "C13_fast_broadcast_sound", "C13_broadcast_flat_index", "C13_binary_in_place_eq",
            "C13_commuted_eq", "C13_binary_never_panics", "C13_model_in_place_eq_normal", "C13_oracle_reflects", "C13_nonvacuous",
            "C13_attention_rounding_witness"]

# Known finding F61: attention-family operators, outputs within a few ulp (classified INSIDE Coq by close_ok)
ATTENTION_KEYS = {"Attention", "com.microsoft/MultiHeadAttention", "com.microsoft/GroupQueryAttention"}
ULP = 4


def attention_classifier(ctx, group, req, cases):
    """classify(case) -> 'F61' only for attention-family cases whose every alternative output is within ULP
    units in the last place of the reference run (same shapes/dtypes; evaluated by close_ok in Coq)."""
    cand = [i for i, c in enumerate(cases) if c["term"].split('"')[1] in ATTENTION_KEYS]
    if not cand:
        return lambda c: None
    notclose, _, err = ctx.coq_eval_cases(group, req, [cases[i]["term"] for i in cand], "(close_ok %d)" % ULP, "prop_ok", 150, tag="ulp")
    if err:
        raise vf.CheckerBroken("close_ok evaluation failed: " + err)
    close = set(id(cases[cand[j]]) for j in range(len(cand)) if j not in set(notclose))
    return lambda c: "F61" if id(c) in close else None

# in-place capable operators that the harness cannot construct / drive yet (reported, not hidden)
KNOWN_UNCOVERED = set()


def registry_keys():
    """Operator keys registered by OnnxOpRegistry::with_all_ops, re-read from the source on every run."""
    path = os.path.join(vf.REPO, "src/op_registry/onnx_registry.rs")
    src = open(path).read()
    try:
        body = src[src.index("pub fn with_all_ops"):src.index("/// Identifier for an ONNX operator")]
    except ValueError:
        raise vf.CheckerBroken("cannot locate OnnxOpRegistry::with_all_ops in %s" % path)
    keys = []
    for m in re.finditer(r"register_op!\(\s*(.*?)\s*\);", body, re.S):
        args = [a.strip() for a in m.group(1).split(",") if a.strip() and not a.strip().startswith("feature")]
        if not args or args[0].startswith("$"):
            continue
        if args[0].startswith('"'):
            name = args[1].strip('"')
            keys.append(args[0].strip('"') + "/" + name)
        else:
            keys.append(args[0])
    if len(keys) < 100:
        raise vf.CheckerBroken("only %d register_op! entries found in %s" % (len(keys), path))
    return keys


def enumerate_ops(ctx, bindir, binname, keys):
    rc, out = vf.sh([os.path.join(bindir, binname), "list", ",".join(keys)], timeout=300)
    if rc != 0:
        raise vf.CheckerBroken("%s list failed: %s" % (binname, out[-500:]))
    rows = [l.split("\t") for l in out.split("\n") if l.strip()]
    return rows


def main(ctx):
    ctx.rule = ("D cases: for every enumerated operator with in_place_inputs() or is_commutative(): seeded random valid inputs (rank<=4, dims 0..5, "
                "values in [-4,4], f32/i32/i8/u8 as supported), normal run vs in-place runs on owned copies in up to 4 storage arrangements and "
                "swapped operands; F cases: the same on f32 operands with inexact sums/products/reciprocals (thirds, tenths, 7, 10, pi, large/small/subnormal) "
                "and single-element second operands; B cases: Add/Sub/Mul on all shape pairs of rank<=2 (quick) / <=3 (thorough) with dims 0..3 plus random pairs, "
                "compared with the Coq model; non-trivial = the normal run succeeded and at least one alternative execution exists")
    ctx.trusted += ["the hook src/verif/ops.rs builds operators with the ONNX registry's reader and calls Operator::run / run_in_place with a BufferPool",
                    "fast_broadcast_cycles_repeats is tied to its model only through operator results (not observable directly)",
                    "kernels (the per-element functions, SIMD code) are sampled by the differential, not modelled"]
    ctx.audit(GROUP)
    failed = ctx.prove(GROUP, "Props_C13", THEOREMS)
    bindir = ctx.harness(GROUP, profile="release", bins=["c13"])
    keys = registry_keys()
    rows = enumerate_ops(ctx, bindir, "c13", keys)
    inplace = sorted(r[0] for r in rows if r[1] == "ok" and (r[2] != "[]" or r[3] == "true"))
    unbuilt = sorted(r[0] for r in rows if r[1] != "ok")
    ctx.extra["registered_operators"] = len(keys)
    ctx.extra["in_place_or_commutative_operators"] = inplace
    ctx.extra["operators_not_constructed"] = unbuilt
    n = int(os.environ.get("VERIF_OPS_N", "0")) or ctx.n(600, 8000)
    cases = ctx.gen_exec(bindir, "c13", n, extra_gen=[",".join(keys)], inputs=ctx.replay_inputs())
    # coverage: every enumerated in-place/commutative operator must have had a successful normal run
    covered = set()
    for c in cases:
        t = c["tag"]
        if not t.startswith("trivial") and not t.startswith("bin-"):
            covered.add(t.split("|")[0].replace("inexact:", ""))
    if not ctx.replay_path:
        holes = [k for k in inplace if k not in covered and not k.startswith("TI:")]
        ctx.extra["in_place_operators_without_successful_case"] = holes
        ctx.extra["in_place_operators_not_driven"] = sorted(KNOWN_UNCOVERED & set(unbuilt))
        if holes:
            raise vf.CheckerBroken("no successful differential case for in-place/commutative operator(s) %s: the harness table "
                                   "(harness/ops/src/optable.rs) needs a generator for them" % holes)
    diff = [c for c in cases if c["term"].startswith("Diff")]
    binc = [c for c in cases if c["term"].startswith("Bin")]
    if diff:
        ctx.correspond("run-vs-run_in_place", GROUP, REQ, diff, classify=attention_classifier(ctx, GROUP, REQ, diff),
                       agree="prop_ok", prop_ok="prop_ok", show="show", shard=150,
                       fn_name="Operator::run vs Operator::run_in_place / swapped operands (two-run differential)")
    if binc:
        ctx.correspond("binary-model", GROUP, REQ, binc, show="show", shard=300,
                       fn_name="Ops.InPlace.{binary_op, binary_commutative_op, run_in_place} (Add/Sub/Mul)")
    if failed and not ctx.violations:
        ctx.proof_broken(failed, "all correspondence cases of this run")
