"""C16 -- Matrix multiplication is correct for every kernel and shape (DESIGN.md section 2, C16)."""
import os

import vf

META = {
    "claimed": True,
    "text": ("Coq theorems, over an ARBITRARY commutative ring and for ALL sizes (incl. 0) and ALL block parameters "
             "(mr, nr, mc, nc, kc, gemv chunk sizes; only mr|mc, nr|nc and positivity are assumed, and re-checked on the values "
             "the implementation reports), about a Gallina model of rten-gemm's driver (gemm_impl: empty-output exit, zero-depth "
             "path, gemv fast path with effective beta and bias-after, the three blocked loops, gemm_block with OutputTiles tail "
             "tiles, effective beta = beta on the first depth block only, bias on the first depth block only, pack_a_block / "
             "pack_b_block flat-buffer layouts with zero padding, the unpacked-LHS path, prepack_a / prepack_b with "
             "PackedMatrixBase::block addressing incl. the tail panel stride, and the im2col gather rule on build_im2col's offset "
             "tables): the result is alpha*A*B + beta*C + bias at every cell, every cell is initialised, nothing outside the m x n "
             "output is written, with beta = 0 the prior contents (modelled as poison) cannot influence the result, prepacked = "
             "unpacked, im2col element = zero-padded convolution patch. Tie to the code: every f32 kernel usable on this machine "
             "(generic, AVX2/FMA, AVX-512, selected through a cfg(rten_verif) hook) is run through GemmExecutor::{gemm, gemm_uninit, "
             "batched_gemm_uninit, prepack_a, prepack_b} on integer-valued inputs (|x| <= 8, K <= 1100, alpha/beta in {0,1,-1,2}) so "
             "that f32 arithmetic is exact under any summation order; outputs are compared EXACTLY with the Z instance of the "
             "specification inside Coq (all cells for shapes <= 32x32x64, weighted row/column checksums plus sampled cells for "
             "shapes up to ~300x300x600 / gemv up to 2049 columns), with the output buffer pre-filled with NaN/inf/garbage when "
             "beta = 0. Float rounding and the SIMD micro-kernel instructions are exercised, not proved."),
    "note": ("Trusted: Coq kernel; the correspondence sample (a test, not a proof); the micro-kernels (simd_gemm / simd_gemv and "
             "their tail-tile TempTile path) are modelled by their contract C = beta*C + alpha*A_panel*B_panel and only exercised; "
             "strides enter through rten-tensor's element access (C06/C09) and are exercised with 5 layouts per operand; the "
             "checksum oracle's sum-exchange identity is cross-checked against the full comparison on every small case rather than "
             "proved; thread-level behaviour (rayon) is run-time. Block sizes are parameters: changing them in the code raises no "
             "alarm; the packed-buffer layout model is compared with the real packing functions only as information "
             "(evidence: packing_layout_disagreements)."),
    "technique": "Coq proof (pointwise-update calculus over folds, unique-tile/unique-block arguments, induction over depth blocks, "
                 "flat-offset decoding) + model/implementation correspondence on exactly-representable inputs",
}
GROUP = "gemm"
REQ = "From RV Require Import Prelude.\nFrom Gemm Require Import GemmModel ModelC16.\nOpen Scope N_scope."
THEOREMS = ["C16_blocked_gemm_correct", "C16_gemm_main_correct", "C16_operand_providers_correct", "C16_gemv_correct",
            "C16_beta_zero_no_poison", "C16_every_output_initialised", "C16_nothing_outside_written", "C16_prepack_eq",
            "C16_im2col_spec", "C16_Z_instance", "C16_oracle_reflects", "C16_nonvacuous"]


def classify(case):
    return None


def main(ctx):
    ctx.rule = ("per f32 kernel available on this machine (hook f32_kernel_names): seeded random small shapes m,n<=32,k<=64 biased "
                "to 0/1 and mr/nr +-1 (all cells compared; the blocked model itself is evaluated), large shapes around mc/nc/kc "
                "+-1 up to 300x300x600 and gemv up to 2049 columns / 1024 depth (weighted row+column checksums + 24 sampled cells), "
                "5 storage layouts per operand (contiguous, transposed, both strides non-unit, padded rows, padded columns), "
                "alpha/beta in {0,1,-1,2}, none/column/row bias, prepacked A/B, im2col RHS, batched calls, 1/3/16 rayon threads, "
                "gemm vs gemm_uninit, output pre-filled with NaN/inf/3e30/-0.5 when beta=0; non-trivial = output non-empty")
    ctx.trusted += ["SIMD micro-kernels (simd_gemm, simd_gemv, TempTile tail path): modelled by contract, exercised only",
                    "f32 arithmetic: exact on the generated sub-domain (integers < 2^24); rounding not modelled",
                    "rayon parallel loops: sequential model; every tile is written by one task (run-time)"]
    ctx.assumptions += ["integer-valued inputs make f32 results order-independent (|values| < 2^24)"]
    ctx.audit(GROUP)
    failed = ctx.prove(GROUP, "Props_C16", THEOREMS)
    bindir = ctx.harness(GROUP, profile="release", bins=["c16"])
    cases = ctx.gen_exec(bindir, "c16", int(os.environ.get('VERIF_N', ctx.n(40, 120))), inputs=ctx.replay_inputs())
    gemm_cases = [c for c in cases if not c["term"].startswith("CP ")]
    pack_cases = [c for c in cases if c["term"].startswith("CP ")]
    # The property is functional: the implementation's output must equal the specification.  Alarms
    # are raised on that only (agree = prop_ok); block sizes / packing layout are not constrained.
    allc = gemm_cases + pack_cases
    shard = max(4, -(-len(allc) // vf.NCPU))
    ctx.correspond("gemm-output-vs-spec", GROUP, REQ, allc, classify=classify, show="show",
                   agree="always", prop_ok="prop_ok", shard=shard,
                   fn_name="Gemm.GemmModel.gemm_spec (Z instance) vs GemmExecutor output")
    if os.environ.get('VERIF_FAST') == '1':
        if failed and not ctx.violations:
            ctx.proof_broken(failed, 'all correspondence cases of this run')
        return
    # Informational: (a) does the blocked model with the reported block parameters reproduce the
    # output (params_okb still holds for the code's block-size functions)? (b) packed-buffer layouts.
    dis, _, err = ctx.coq_eval_cases(GROUP, REQ, [c["term"] for c in gemm_cases], "agree", "always", shard, tag="det")
    ctx.extra["blocked_model_disagreements"] = (len(dis) if not err else "evaluation error: " + str(err)[:200])
    if pack_cases:
        dis2, _, err2 = ctx.coq_eval_cases(GROUP, REQ, [c["term"] for c in pack_cases], "agree", "always", max(4, -(-len(pack_cases) // vf.NCPU)), tag="pack")
        ctx.extra["packing_layout_disagreements"] = (len(dis2) if not err2 else "evaluation error: " + str(err2)[:200])
        ctx.extra["packing_layout_cases"] = len(pack_cases)
    if failed and not ctx.violations:
        ctx.proof_broken(failed, "all correspondence cases of this run")
